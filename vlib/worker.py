"""Worker process: python -m vlib.worker PROP SHARD TIER SEED BUDGET OUTFILE

Runs one shard of one property against the xrspatial found on PYTHONPATH
(asserted to be $VERIF_REPO) and writes its report as JSON.
Special shards:
  @regress        re-run every committed replay in replays/<PROP>/ and every open known finding's replay
  @replay:<path>  re-run one replay file
"""
import glob
import importlib
import json
import os
import sys
import warnings

HERE = os.path.dirname(os.path.dirname(os.path.abspath(__file__)))


def main():
    prop, shard, tier, seed, budget, out = sys.argv[1:7]
    os.environ["VERIF_WORKER_OUT"] = out
    seed = int(seed)
    budget = float(budget)
    warnings.filterwarnings("ignore")
    import numpy as np
    np.seterr(all="ignore")

    import xrspatial
    repo = os.path.realpath(os.environ.get("VERIF_REPO", "/repo"))
    if not os.path.realpath(xrspatial.__file__).startswith(repo + os.sep):
        print("xrspatial imported from %s, expected under %s" % (xrspatial.__file__, repo))
        sys.exit(3)

    from vlib import core
    from vlib.runner import load_known
    mod = importlib.import_module("vlib.props.%s" % prop.lower())
    known_all = load_known(prop)
    known = {e["bucket"]: e for e in known_all if e.get("status") == "open"}
    ctx = core.Ctx(prop, tier, seed, shard, known=known, budget_s=budget)

    if shard == "@regress":
        files = sorted(glob.glob(os.path.join(HERE, "replays", prop, "*.json")))
        for e in known_all:
            if e.get("replay"):
                p = os.path.join(HERE, e["replay"])
                if p not in files and os.path.exists(p):
                    files.append(p)
        for path in files:
            replay_one(mod, ctx, path)
    elif shard.startswith("@replay:"):
        replay_one(mod, ctx, shard[len("@replay:"):])
    else:
        table = dict((s[0], s[1]) for s in mod.shards(tier))
        table[shard](ctx)

    with open(out, "w") as f:
        json.dump(ctx.to_json(), f, default=str)


def replay_one(mod, ctx, path):
    from vlib import core
    with open(path) as f:
        rep = json.load(f)
    case = rep["case"] if "case" in rep else rep
    body = mod.BODIES[case["sub"]]
    r = core.run_body(body, case, ctx)
    ctx.account(case, r)
    for bucket, msg in ctx.triage(case, r):
        if not any(v["bucket"] == bucket for v in ctx.violations):
            ctx.violations.append({"bucket": bucket, "msg": msg, "case": case})


if __name__ == "__main__":
    main()
