"""CLI: ./check <PROP> [--tier quick|thorough] [--seed N] [--replay FILE] [--shards a,b] [--workers N]

Spawns one worker subprocess per shard of the property (up to --workers at a
time), merges their reports, writes evidence/<PROP>.json and prints

    VIOLATION property=<id> replay=<path>       (exit 1)  unlisted violation
    KNOWN-FINDING: property=<id> <what fails>   (exit 0)  listed, still present

Exit 2 is a harness error (import failure, crashed or hung worker) and is
never phrased as a violation.
"""
import argparse
import importlib
import json
import os
import subprocess
import sys
import tempfile
import time

HERE = os.path.dirname(os.path.dirname(os.path.abspath(__file__)))
PY = "/venv/bin/python"


def child_env(threads=1):
    env = dict(os.environ)
    repo = os.environ.get("VERIF_REPO", "/repo")
    env["VERIF_REPO"] = repo
    env["PYTHONPATH"] = repo + os.pathsep + HERE
    env["PYTHONDONTWRITEBYTECODE"] = "1"
    env["PYTHONHASHSEED"] = "0"
    env.setdefault("NUMBA_NUM_THREADS", str(threads))
    env.setdefault("OMP_NUM_THREADS", "1")
    env.setdefault("OPENBLAS_NUM_THREADS", "1")
    env.setdefault("MKL_NUM_THREADS", "1")
    env["NUMBA_DISABLE_PERFORMANCE_WARNINGS"] = "1"
    env["PYTHONWARNINGS"] = "ignore"
    return env


def load_known(prop):
    path = os.path.join(HERE, "known_findings.json")
    if not os.path.exists(path):
        return []
    with open(path) as f:
        data = json.load(f)
    return [e for e in data.get("findings", []) if e.get("property") == prop]


def main(argv=None):
    ap = argparse.ArgumentParser()
    ap.add_argument("prop")
    ap.add_argument("--tier", default=os.environ.get("VERIF_TIER", "quick"), choices=["quick", "thorough"])
    ap.add_argument("--seed", type=int, default=int(os.environ.get("VERIF_SEED", "1") or 1))
    ap.add_argument("--replay")
    ap.add_argument("--shards", help="comma separated shard-name prefixes to run (debug)")
    ap.add_argument("--workers", type=int, default=int(os.environ.get("VERIF_WORKERS", "16")))
    ap.add_argument("--no-evidence", action="store_true")
    args = ap.parse_args(argv)
    prop = args.prop.upper()
    t0 = time.time()

    repo = os.environ.get("VERIF_REPO", "/repo")
    sys.path.insert(0, repo)
    sys.path.insert(0, HERE)
    try:
        mod = importlib.import_module("vlib.props.%s" % prop.lower())
    except Exception as e:  # noqa
        print("HARNESS-ERROR: cannot import property module %s: %r" % (prop, e))
        return 2

    env = child_env()
    env.update(getattr(mod, "ENV", {}))
    if args.replay:
        shard_names = ["@replay:" + os.path.abspath(args.replay)]
    else:
        shard_names = ["@regress"] + [s[0] for s in mod.shards(args.tier)]
        if args.shards:
            pre = args.shards.split(",")
            shard_names = [s for s in shard_names if any(s.startswith(p) for p in pre)]

    budget = getattr(mod, "BUDGET_S", {"quick": 240, "thorough": 1500})[args.tier]
    hard = max(3 * budget, budget + 300)

    tmpdir = tempfile.mkdtemp(prefix="verif_%s_" % prop, dir=os.environ.get("VERIF_TMP", "/dev/shm" if os.path.isdir("/dev/shm") else None))
    pending = list(shard_names)
    running = {}
    reports = []
    errors = []
    try:
        while pending or running:
            while pending and len(running) < args.workers:
                name = pending.pop(0)
                out = os.path.join(tmpdir, "%d.json" % len(reports + list(running)) + "_%d" % len(pending))
                log = open(out + ".log", "w")
                p = subprocess.Popen([PY, "-m", "vlib.worker", prop, name, args.tier, str(args.seed), str(budget), out],
                                     cwd=HERE, env=env, stdout=log, stderr=subprocess.STDOUT)
                running[name] = (p, out, log, time.time())
            time.sleep(0.2)
            for name in list(running):
                p, out, log, ts = running[name]
                rc = p.poll()
                if rc is None:
                    if time.time() - ts > hard:
                        p.kill()
                        errors.append("worker %s exceeded hard limit %ds" % (name, hard))
                        log.close()
                        del running[name]
                    continue
                log.close()
                del running[name]
                if rc != 0 or not os.path.exists(out):
                    tail = open(out + ".log").read()[-3000:]
                    errors.append("worker %s exit %s\n%s" % (name, rc, tail))
                else:
                    with open(out) as f:
                        reports.append(json.load(f))
    finally:
        for name, (p, out, log, ts) in running.items():
            p.kill()
        import shutil
        shutil.rmtree(tmpdir, ignore_errors=True)

    if errors:
        for e in errors:
            print("HARNESS-ERROR: " + e)
        return 2

    # ---- merge
    evaluations = sum(r["evaluations"] for r in reports)
    digests = set()
    nt_enum = 0
    classes = {}
    samples = []
    violations = []
    known_seen = {}
    exhaustive = []
    per_shard = {}
    amb = excl = 0
    budget_exhausted = []
    notes = []
    for r in sorted(reports, key=lambda r: r["shard"]):
        digests.update(r["nt_digests"])
        nt_enum += r["nt_enum"]
        for k, v in r["classes"].items():
            classes[k] = classes.get(k, 0) + v
        for s in r["samples"]:
            if len(samples) < 8 and (len(samples) < 3 or s.get("sub") not in [x.get("sub") for x in samples]):
                samples.append(s)
        violations.extend(r["violations"])
        for k, v in r["known_seen"].items():
            known_seen.setdefault(k, v)
        exhaustive.extend(r["exhaustive"])
        amb += r["ambiguous"]
        excl += r["excluded_known"]
        if r["budget_exhausted"]:
            budget_exhausted.append(r["shard"])
        notes.extend(r["notes"])
        per_shard[r["shard"]] = {"evaluations": r["evaluations"], "wall_s": r["wall_s"],
                                 "nontrivial": len(r["nt_digests"]) + r["nt_enum"]}
    if not samples:
        for r in reports:
            samples.extend(r["samples"][:2])

    known = {e["bucket"]: e for e in load_known(prop) if e.get("status") == "open"}

    # ---- violations -> replay files
    rc = 0
    seen_b = set()
    outdir = os.path.join(HERE, "out", "violations", prop)
    lines = []
    for v in violations:
        if v["bucket"] in seen_b:
            continue
        seen_b.add(v["bucket"])
        os.makedirs(outdir, exist_ok=True)
        from vlib.core import digest
        path = os.path.join(outdir, "%s.json" % digest(v["case"]))
        with open(path, "w") as f:
            json.dump({"property": prop, "bucket": v["bucket"], "message": v["msg"], "seed": args.seed,
                       "tier": args.tier, "case": v["case"]}, f, indent=1, default=str)
        lines.append("VIOLATION property=%s replay=%s" % (prop, path))
        lines.append("  bucket=%s" % v["bucket"])
        lines.append("  " + v["msg"].replace("\n", "\n  ")[:1500])
        rc = 1
    for b, msg in sorted(known_seen.items()):
        lines.append("KNOWN-FINDING: property=%s %s" % (prop, known[b]["what"] if b in known else b))

    wall = round(time.time() - t0, 2)
    ev = {
        "property_id": prop,
        "tier": args.tier,
        "seed": args.seed,
        "level": "exploration",
        "coverage": {
            "evaluations": evaluations,
            "distinct_nontrivial": len(digests) + nt_enum,
            "rule": getattr(mod, "RULE", ""),
            "samples": samples,
            "exhaustive": bool(exhaustive) and all(e["complete"] for e in exhaustive),
            "exhaustive_spaces": exhaustive,
            "classes": dict(sorted(classes.items())),
            "ambiguous": amb,
            "excluded_known": excl,
            "budget_exhausted_shards": budget_exhausted,
            "per_shard": per_shard,
            "known_findings_reobserved": sorted(known_seen),
            "notes": notes[:20],
            "repo": repo,
        },
        "assumptions": getattr(mod, "ASSUMPTIONS", []),
        "wall_s": wall,
        "violations": len(seen_b),
    }
    if not args.replay and not args.no_evidence and not args.shards:
        os.makedirs(os.path.join(HERE, "evidence"), exist_ok=True)
        with open(os.path.join(HERE, "evidence", "%s.json" % prop), "w") as f:
            json.dump(ev, f, indent=1, default=str)
    for ln in lines:
        print(ln)
    print("%s tier=%s seed=%d evaluations=%d distinct_nontrivial=%d violations=%d known=%d ambiguous=%d wall=%.1fs%s" % (
        prop, args.tier, args.seed, evaluations, len(digests) + nt_enum, len(seen_b), len(known_seen), amb, wall,
        " budget_exhausted=%s" % ",".join(budget_exhausted) if budget_exhausted else ""))
    if args.shards or args.replay:
        print(json.dumps({"classes": classes, "per_shard": per_shard, "exhaustive": exhaustive}, default=str)[:3000])
    return rc


if __name__ == "__main__":
    sys.exit(main())
