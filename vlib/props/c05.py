"""C05 - viewshed marks a cell visible exactly when the line-of-sight model says so."""
import numpy as np
from hypothesis import strategies as st

from .. import strategies as S
from ..core import R, dec_arr, drive_enum, drive_hypothesis

PROP = "C05"
RULE = ("Generator: NaN-free terrains (small-int plateaus with many exact ties, random ints, halves, free floats, constructed ridges/walls/pits/cones; "
        "int and float dtypes) x observer cell (forced corner/edge/interior classes; given by exact cell coordinates or by an off-centre point strictly "
        "nearest to that cell) x observer_elev {0,>0,<0,fractional} x target_elev {0,>0} x x/y steps {1,2,0.5,3,0.25} independently x y/x ascending or "
        "descending; 'all observers' cases evaluate every cell of the terrain as observer. Oracle: O(n^2) evaluation of the documented line-of-sight model "
        "(DESIGN App. A; no event list, sort or tree): observer=180, visible cells = vertical angle within 1e-9, others -1; a cell whose blocking margin "
        "|max gradient - own gradient| <= 1e-12 is ambiguous (skipped, counted). Non-trivial: >= 1 invisible and >= 1 visible non-observer cell. "
        "Distinct by SHA-1 of (terrain, observer, elevations, steps).")
ASSUMPTIONS = ["terrain is NaN-free, dims named y/x with index coordinates, H,W >= 2 (property text / wrapper requirements)",
               "observer point lies within the coordinate range (else the function raises, by contract)",
               "float32 terrains: observer_elev is drawn float32-exact (the viewpoint elevation z + observer_elev is formed in the raster's dtype, "
               "so a non-representable offset would be rounded to single precision before the model is applied)"]
BUDGET_S = {"quick": 200, "thorough": 1500}


def _one(case, el, vr, vc, r, fast):
    import xarray as xr
    from xrspatial import viewshed
    from ..oracles import viewshed as V
    H, W = el.shape
    sy, sx = case["sy"], case["sx"]
    ys = np.arange(H) * sy + case.get("y0", 0.0)
    xs = np.arange(W) * sx + case.get("x0", 0.0)
    if case.get("ydesc"):
        ys = ys[::-1].copy()
    if case.get("xdesc"):
        xs = xs[::-1].copy()
    ras = xr.DataArray(el.copy(), dims=["y", "x"], coords={"y": ys, "x": xs}, attrs={"res": 1})
    px, py = xs[vc], ys[vr]
    off = case.get("off")
    if off:
        # off-centre point strictly nearer to (vr,vc) than to any other cell and inside the coordinate range
        oy = off[0] * sy * (-1 if case.get("ydesc") else 1)
        ox = off[1] * sx * (-1 if case.get("xdesc") else 1)
        if ys.min() <= py + oy <= ys.max():
            py = py + oy
        if xs.min() <= px + ox <= xs.max():
            px = px + ox
    out = viewshed(ras, x=px, y=py, observer_elev=case["obs"], target_elev=case["tgt"])
    o = np.asarray(out.values)
    if o.shape != el.shape:
        r.fail("viewshed.shape", "%s vs %s" % (o.shape, el.shape))
        return 0, 0
    ew = (xs[-1] - xs[0]) / (W - 1)
    ns = (ys[-1] - ys[0]) / (H - 1)
    ref, margin = (V.reference_fast if fast else V.reference)(el.astype("float64"), vr, vc, case["obs"], case["tgt"], ew, ns)
    if o[vr, vc] != 180:
        r.fail("viewshed.observer_not_180", "observer cell (%d,%d) holds %r" % (vr, vc, o[vr, vc]))
        return 0, 0
    vis_o = o != -1
    vis_r = ref != -1
    mism = vis_o != vis_r
    # exact ties (margin == 0: both sides evaluate the same closed formulas on the same numbers) are decided by the model (visible);
    # only a non-zero margin inside the rounding band is ambiguous
    hard = mism & ((margin > 1e-12) | (margin == 0.0))
    r.amb += int((mism & ~hard).sum())
    if hard.any():
        i, j = np.argwhere(hard)[0]
        kind = "reported_visible_but_blocked" if vis_o[i, j] else "reported_invisible_but_clear"
        big = el.size > 2000
        r.fail("viewshed.visibility." + kind, "observer (%d,%d) cell (%d,%d): got %r, model %r, margin %.3g\nterrain=%s\nout=%s\nref=%s" % (
            vr, vc, i, j, o[i, j], ref[i, j], margin[i, j], case["terrain"] if big else el.tolist(), "(omitted)" if big else o.tolist(),
            "(%d mismatching cells)" % int(hard.sum()) if big else ref.tolist()))
        return 0, 0
    both = vis_o & vis_r
    if both.any():
        d = np.abs(o[both] - ref[both])
        if (d > 1e-9).any():
            r.fail("viewshed.vertical_angle", "max |angle diff| %.3g; out=%s ref=%s" % (d.max(), o.tolist() if o.size < 2000 else "(omitted)",
                                                                                       ref.tolist() if o.size < 2000 else "(omitted)"))
            return 0, 0
    ninv = int((~vis_r).sum())
    nvis = int(vis_r.sum()) - 1
    return ninv, nvis


def _terrain(case):
    t = case["terrain"]
    if "far" in t:
        # long, narrow raster given by its few non-zero cells (thousands of cells cannot be drawn one by one)
        h, w, spikes = t["far"]
        a = np.zeros((h, w), dtype=t.get("dtype", "float64"))
        for (i, j, z) in spikes:
            a[i, j] = z
        return a
    return dec_arr(t)


def body_vs(case, ctx):
    el = _terrain(case)
    H, W = el.shape
    r = R()
    fast = H * W > 36
    r.label("kind=" + case.get("kind", "?"), "dtype=" + str(el.dtype))
    if case["sx"] != case["sy"]:
        r.label("nonsquare_cells")
    if case.get("ydesc"):
        r.label("y_descending")
    if case.get("xdesc"):
        r.label("x_descending")
    if case["obs"] < 0:
        r.label("negative_observer_elev")
    if case["tgt"] > 0:
        r.label("target_elev>0")
    if H * W >= 400:
        r.label("grid>=20x20")
    if case.get("off"):
        r.label("off_centre_point")
    if case.get("all_observers"):
        r.label("all_observers")
        obs_list = [(i, j) for i in range(H) for j in range(W)]
    else:
        obs_list = [tuple(case["observer"])]
        vr, vc = obs_list[0]
        onr = vr in (0, H - 1)
        onc = vc in (0, W - 1)
        r.label("observer=" + ("corner" if onr and onc else "edge" if onr or onc else "interior"))
    tinv = tvis = 0
    for (vr, vc) in obs_list:
        ninv, nvis = _one(case, el, vr, vc, r, fast)
        if r.fails:
            if case.get("all_observers"):
                r.fails[0] = (r.fails[0][0], "[all_observers: failing observer (%d,%d)] " % (vr, vc) + r.fails[0][1])
            return r
        if ninv >= 1 and nvis >= 1:
            r.nt = True
        tinv += ninv
        tvis += nvis
    if tinv:
        r.label("has_invisible")
    return r


def body_twin(case, ctx):
    """Harness self-check: the compiled reference equals its pure-Python twin (no xrspatial involved)."""
    from ..oracles import viewshed as V
    el = dec_arr(case["terrain"]).astype("float64")
    vr, vc = case["observer"]
    a, ma = V.reference(el, vr, vc, case["obs"], case["tgt"], case["sx"], case["sy"])
    b, mb = V.reference_fast(el, vr, vc, case["obs"], case["tgt"], case["sx"], case["sy"])
    r = R(nt=True)
    if not np.array_equal(a, b) or not np.allclose(ma, mb, rtol=0, atol=0, equal_nan=True):
        r.fail("harness.reference_twin_mismatch", "%s vs %s" % (a.tolist(), b.tolist()))
    return r


BODIES = {"vs": body_vs, "twin": body_twin}


# ------------------------------------------------------------------ strategies

def _constructed(kind, h, w, p, q, hgt):
    a = np.zeros((h, w))
    if kind == "ridge":
        a[p % h, :] = hgt
    elif kind == "wall":
        a[:, q % w] = hgt
        a[p % h, q % w] = 0  # a gap
    elif kind == "pit":
        a[:] = hgt
        a[p % h, q % w] = 0
    elif kind == "cone":
        yy, xx = np.mgrid[0:h, 0:w]
        a = np.maximum(0, hgt - np.maximum(abs(yy - p % h), abs(xx - q % w))).astype(float)
    elif kind == "stairs":
        yy, xx = np.mgrid[0:h, 0:w]
        a = ((yy + xx) // 2).astype(float) * (hgt / 4.0)
    return a


@st.composite
def vs_cases(draw, max_side, all_obs=False, big=False):
    if big:
        h = draw(st.integers(max(2, max_side // 2), max_side))
        w = draw(st.integers(max(2, max_side // 2), max_side))
    else:
        h = draw(st.integers(2, max_side))
        w = draw(st.integers(2, max_side))
    kind = draw(st.sampled_from(["plateau", "plateau", "ints", "halves", "free", "constructed", "constructed"]))
    dtype = "float64"
    if kind == "plateau":
        data = draw(S.grid(h, w, [0, 1, 2, 3]))
        dtype = draw(st.sampled_from(["float64", "int32", "int64", "float32"]))
    elif kind == "ints":
        data = draw(S.grid(h, w, list(range(-5, 20))))
        dtype = draw(st.sampled_from(["float64", "int32", "int16"]))
    elif kind == "halves":
        data = draw(S.grid(h, w, [0.0, 0.5, 1.0, 1.5, 2.5, 4.0, 7.5]))
        dtype = draw(st.sampled_from(["float64", "float32"]))
    elif kind == "free":
        flat = draw(st.lists(st.floats(0, 10, allow_nan=False, width=64), min_size=h * w, max_size=h * w))
        data = [flat[i * w:(i + 1) * w] for i in range(h)]
    else:
        ck = draw(st.sampled_from(["ridge", "wall", "pit", "cone", "stairs"]))
        a = _constructed(ck, h, w, draw(st.integers(0, 50)), draw(st.integers(0, 50)), draw(st.sampled_from([1, 2, 5, 2.5])))
        # perturb a few cells
        npert = draw(st.integers(0, 3))
        for _ in range(npert):
            a[draw(st.integers(0, h - 1)), draw(st.integers(0, w - 1))] += draw(st.sampled_from([1, -1, 0.5, 3]))
        data = a.tolist()
        kind = "constructed:" + ck
    case = {"sub": "vs", "kind": kind, "terrain": {"dtype": dtype, "data": data},
            "obs": draw(st.sampled_from([0, 0, 1, 2.5, -1, 0.3, 10, -0.5])), "tgt": draw(st.sampled_from([0, 0, 1, 0.5, 3])),
            "sx": draw(st.sampled_from([1, 1, 2, 0.5, 3, 0.25])), "sy": draw(st.sampled_from([1, 1, 2, 0.5, 3, 0.25])),
            "ydesc": draw(st.booleans()), "xdesc": draw(st.sampled_from([False, False, True])),
            "y0": draw(st.sampled_from([0, 0, 10.5, -7])), "x0": draw(st.sampled_from([0, 0, -3.25, 100]))}
    if dtype == "float32" and case["obs"] in (0.3,):
        # the viewpoint elevation is formed in the raster's dtype: keep observer_elev float32-exact for float32 terrains
        case["obs"] = 0.25
    if all_obs:
        case["all_observers"] = True
    else:
        cls = draw(st.sampled_from(["corner", "edge", "interior", "any"]))
        if cls == "corner":
            ob = [draw(st.sampled_from([0, h - 1])), draw(st.sampled_from([0, w - 1]))]
        elif cls == "edge":
            if draw(st.booleans()):
                ob = [draw(st.sampled_from([0, h - 1])), draw(st.integers(0, w - 1))]
            else:
                ob = [draw(st.integers(0, h - 1)), draw(st.sampled_from([0, w - 1]))]
        elif cls == "interior" and h > 2 and w > 2:
            ob = [draw(st.integers(1, h - 2)), draw(st.integers(1, w - 2))]
        else:
            ob = [draw(st.integers(0, h - 1)), draw(st.integers(0, w - 1))]
        case["observer"] = ob
        if draw(st.integers(0, 2)) == 0:
            case["off"] = [draw(st.sampled_from([-0.4, -0.2, 0.3, 0.45])), draw(st.sampled_from([-0.45, -0.1, 0.25, 0.4]))]
    return case


@st.composite
def far_cases(draw, max_w):
    """Long-distance angular resolution: 2-4 rows x 1000-4000 columns of flat ground with a few ridge / pit cells in the near half; the shadow
    edge of a ridge 900 cells out passes between far cells whose bearings differ by ~1e-7 rad."""
    h = draw(st.integers(2, 4))
    w = draw(st.integers(max_w // 3, max_w))
    oc = draw(st.sampled_from([0, 0, w - 1]))
    obs = draw(st.sampled_from([1, 1, 2.5, 0.5, 10]))
    spikes = []
    for _ in range(draw(st.integers(2, 8))):
        # ridges between 1/6 and 1/2 of the raster's length away from the observer: the far edge of their shadow falls inside the raster,
        # on cells 2-3 times as far away
        d = draw(st.integers(w // 6, (w - 3) // 2))
        z = draw(st.sampled_from([8, 20, 3, 8, 20, -8, 1]))
        row = draw(st.integers(0, h - 1))
        spikes.append([row, d if oc == 0 else w - 1 - d, z])
        if draw(st.booleans()):
            # a pit right in front of / behind the ridge keeps the shared corners low: the ridge cell alone decides its shadow's edge
            side = draw(st.sampled_from([-1, -1, 1]))
            spikes.append([row, (d + side) if oc == 0 else w - 1 - (d + side), -z])
    case = {"sub": "vs", "kind": "far", "terrain": {"far": [h, w, spikes], "dtype": "float64"},
            "obs": obs, "tgt": draw(st.sampled_from([0, 0, 1])),
            "sx": draw(st.sampled_from([1, 1, 0.5, 30])), "sy": 0, "ydesc": draw(st.booleans()), "xdesc": draw(st.sampled_from([False, False, True])),
            "y0": 0, "x0": draw(st.sampled_from([0, 100])),
            "observer": [draw(st.integers(0, h - 1)), oc]}
    case["sy"] = draw(st.sampled_from([case["sx"], case["sx"], case["sx"] * 2]))
    return case


@st.composite
def twin_cases(draw):
    c = draw(vs_cases(6))
    c["sub"] = "twin"
    c.pop("off", None)
    return c


def shards(tier):
    out = []
    if tier == "quick":
        for i in range(8):
            out.append(("small#%d" % i, lambda ctx: drive_hypothesis(ctx, body_vs, vs_cases(8), 600)))
        for i in range(3):
            out.append(("mid#%d" % i, lambda ctx: drive_hypothesis(ctx, body_vs, vs_cases(12, big=True), 300)))
        for i in range(3):
            out.append(("allobs#%d" % i, lambda ctx: drive_hypothesis(ctx, body_vs, vs_cases(5, all_obs=True), 60)))
        out.append(("big#0", lambda ctx: drive_hypothesis(ctx, body_vs, vs_cases(24, big=True), 60, shrink=False)))
        out.append(("twin#0", lambda ctx: drive_hypothesis(ctx, body_twin, twin_cases(), 150)))
        for i in range(4):
            out.append(("far#%d" % i, lambda ctx: drive_hypothesis(ctx, body_vs, far_cases(3000), 60, shrink=False)))
    else:
        for i in range(8):
            out.append(("far#%d" % i, lambda ctx: drive_hypothesis(ctx, body_vs, far_cases(4000), 500, shrink=False)))
        for i in range(12):
            out.append(("small#%d" % i, lambda ctx: drive_hypothesis(ctx, body_vs, vs_cases(8), 12000)))
        for i in range(8):
            out.append(("mid#%d" % i, lambda ctx: drive_hypothesis(ctx, body_vs, vs_cases(14, big=True), 6000)))
        for i in range(6):
            out.append(("allobs#%d" % i, lambda ctx: drive_hypothesis(ctx, body_vs, vs_cases(7, all_obs=True), 1200)))
        for i in range(6):
            out.append(("big#%d" % i, lambda ctx: drive_hypothesis(ctx, body_vs, vs_cases(40, big=True), 1200, shrink=False)))
        out.append(("twin#0", lambda ctx: drive_hypothesis(ctx, body_twin, twin_cases(), 300)))
    return out


LEVEL_TEXT = ("Differential search against an independent O(n^2) executable statement of the line-of-sight model: thousands (quick) / ~200k (thorough) "
              "terrains incl. tie-rich plateaus, every observer cell on sampled terrains, grids up to 24 (quick) / 40 (thorough) cells a side for deep trees.")
LEVEL_NOTE = ("Sampled; the reference model was derived from the function's documented model (event bearings, linear corner-centre-corner interpolation) and "
              "shares no code with the sweep/tree; gradient ties within 1e-12 are skipped and counted; reference twin (pure Python vs compiled) cross-checked each run.")
TECHNIQUE = "differential property-based testing against an O(n^2) reference model (Hypothesis), all-observer sweeps on sampled terrains"
