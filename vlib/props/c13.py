"""C13 - spectral indices equal their band formulas, NaN where undefined; normalised-difference
metamorphic relations; true_color alpha rule."""
from fractions import Fraction

import numpy as np
from hypothesis import strategies as st

from .. import strategies as S
from ..core import R, dec_arr, drive_enum, drive_hypothesis

PROP = "C13"
RULE = ("Generator: 1..8-sided (thorough 1..16) band rasters, one independently drawn band per argument, dtypes int8..uint64/float32/float64 "
        "(weighted to uint8/uint16/int16/int32/float32/float64; 1/7 of cases mix dtypes), integer values from boundary sets (0,1,2,max,max-1,max/2,min,-1), "
        "small ranges and the full range, float palettes (small ints, signed, halves, non-float32-representable, free floats 2^-20<=|v|<=2^20) with NaN cells, "
        "zero cells; relations between the two denominator bands (independent / equal / negated / per-cell mix), third band solved so the ARVI "
        "denominator cancels, soil_factor in [-1,1] incl. +-1, 0 and the value cancelling one cell's SAVI/EVI denominator, c1,c2,gain>=0; positional or keyword "
        "call; C/F layout; NumPy and (1/5) Dask with independent chunkings per band. Enumerations: every (a,b) pair of uint8 and int8 for each index, "
        "every pair/triple of per-dtype boundary values for each index and dtype. "
        "Oracle (formula): published formula (repository fixture comments) in float64 on the float32-cast bands, App. C forward error bound "
        "(2 ulp where every partial sum is float32-exact), exact-rational zero-denominator test => NaN, NaN band => NaN, no +-inf; "
        "metamorphic (nbr,nbr2,ndvi,ndmi): |out|<=1 where both bands >= 0, swap negates exactly, 2^p scaling bit-identical; "
        "true_color: uint8, (H,W,4), dims (y,x,band), alpha 0 <=> red NaN or <= nodata else 255. "
        "Non-trivial: formula - raster has >=1 zero-denominator cell or NaN cell or an integer band with a value within max/64 of the dtype maximum; "
        "metamorphic - p != 0 and >=1 finite non-zero output cell; true_color - alpha has both values or a red cell NaN or == nodata. "
        "Distinct by SHA-1 of the case (index, dtype, data, parameters) or enumeration index.")
ASSUMPTIONS = ["bands are 2-D, equal shape, same container type (validate_arrays precondition); no +-inf band values",
               "finite non-zero float band values have 2^-20 <= |v| <= 2^20 (integers: the whole dtype range) so float32 overflow/underflow is never what is found",
               "soil_factor in [-1,1]; c1, c2, gain >= 0 (documented ranges; outside them the functions raise)",
               "true_color inputs carry coords y, x; nodata is exactly representable in float32 (a float32 red band is compared after NumPy casts the scalar)",
               "EBBI with swir+tir < 0 (square root of a negative number) is read as 'undefined => NaN'"]
BUDGET_S = {"quick": 150, "thorough": 1500}

EPS = 2.0 ** -23
TINY = 1e-30

INDEX_ARGS = {
    "arvi": ["nir_agg", "red_agg", "blue_agg"], "evi": ["nir_agg", "red_agg", "blue_agg"], "gci": ["nir_agg", "green_agg"],
    "nbr": ["nir_agg", "swir2_agg"], "nbr2": ["swir1_agg", "swir2_agg"], "ndvi": ["nir_agg", "red_agg"], "ndmi": ["nir_agg", "swir1_agg"],
    "savi": ["nir_agg", "red_agg"], "sipi": ["nir_agg", "red_agg", "blue_agg"], "ebbi": ["red_agg", "swir_agg", "tir_agg"],
}
INDICES = list(INDEX_ARGS)
ND = ["nbr", "nbr2", "ndvi", "ndmi"]
DEFAULTS = {"evi": {"c1": 6.0, "c2": 7.5, "soil_factor": 1.0, "gain": 2.5}, "savi": {"soil_factor": 1.0}}
# the pair of argument positions whose relation (equal / negated) makes the denominator vanish
DEN_PAIR = {"sipi": (0, 1), "ebbi": (1, 2)}


# ---------------------------------------------------------------- inputs

def _to_da(a, layout="C", backend="numpy", chunks=None):
    import xarray as xr
    a = S.apply_layout(a, layout)
    if backend == "dask":
        import dask.array as da
        a = da.from_array(a, chunks=tuple(tuple(c) for c in chunks) if chunks is not None else a.shape)
    h, w = a.shape
    return xr.DataArray(a, dims=("y", "x"), coords={"y": np.arange(h, dtype="float64"), "x": np.arange(w, dtype="float64")})


def _boundary_values(dtype):
    dt = np.dtype(dtype)
    if dt.kind in "iu":
        ii = np.iinfo(dt)
        v = [0, 1, 2, 3, ii.max, ii.max - 1, ii.max - 2, ii.max // 2, ii.max // 2 + 1]
        if ii.min < 0:
            v += [ii.min, ii.min + 1, -1, -2, -ii.max]
        return sorted(set(v))
    return [0.0, 1.0, -1.0, 2.0, 0.5, -0.5, 3.0, 1e-6, 1e6, -1e6, 65536.0, 1000000.123, 0.1, float("nan")]


def _enum_bands(idx, e):
    """Arrays of an enumeration descriptor (kept out of the case so that the replay stays small)."""
    nb = len(INDEX_ARGS[idx])
    dt = np.dtype(e["dtype"])
    if e["kind"] == "pairs":          # every (a, b) of an 8-bit dtype; third band constant or a pattern covering all residues
        ii = np.iinfo(dt)
        v = np.arange(ii.min, ii.max + 1, dtype="int64")
        a, b = np.meshgrid(v, v, indexing="ij")
        out = [a.astype(dt), b.astype(dt)]
        if nb == 3:
            t = e["third"]
            c = ((3 * a + 5 * b) % 256 + ii.min) if t == "pat" else np.full_like(a, t)
            out.append(c.astype(dt))
        return out
    vals = _boundary_values(dt)       # every pair / triple of the dtype's boundary values
    v = np.array(vals, dtype="float64").astype(dt) if dt.kind == "f" else np.array(vals, dtype=dt)
    k = len(v)
    if nb == 2:
        a, b = np.meshgrid(v, v, indexing="ij")
        return [np.ascontiguousarray(a), np.ascontiguousarray(b)]
    a, b, c = np.meshgrid(v, v, v, indexing="ij")
    return [np.ascontiguousarray(x.reshape(k * k, k)) for x in (a, b, c)]


def _case_bands(case):
    if "enum" in case:
        return _enum_bands(case["index"], case["enum"])
    return [dec_arr(b) for b in case["bands"]]


def _params(case):
    idx = case["index"]
    p = dict(DEFAULTS.get(idx, {}))
    p.update(case.get("params") or {})
    return p


def _call(idx, rasters, case):
    import xrspatial.multispectral as ms
    f = getattr(ms, idx)
    given = dict(case.get("params") or {})
    if case.get("kw"):
        kw = dict(zip(INDEX_ARGS[idx], rasters))
        kw.update(given)
        return f(**kw)
    return f(*rasters, **given)


def _run_index(idx, arrs, case, backend):
    chunks = case.get("chunks")
    ras = [_to_da(a, case.get("layout", "C"), backend, chunks[i] if (chunks and backend == "dask") else None)
           for i, a in enumerate(arrs)]
    out = _call(idx, ras, case)
    data = out.data
    if backend == "dask":
        data = data.compute(scheduler="synchronous")
    return np.asarray(data)


# ---------------------------------------------------------------- oracle

def _f32exact(x):
    with np.errstate(all="ignore"):
        return x.astype("float32").astype("float64") == x


def _sum_terms(terms):
    """Left-to-right float64 sum of signed term arrays; sum of |terms|; whether every term and partial sum is float32-exact."""
    tot = np.zeros(terms[0].shape)
    sab = np.zeros(terms[0].shape)
    ex = np.ones(terms[0].shape, bool)
    for t in terms:
        new = tot + t
        # error-free transformation (TwoSum): the float64 addition itself must be exact for the sum to count as exact (-2 - 2**63 is not)
        bb = new - tot
        err = (tot - (new - bb)) + (t - bb)
        tot = new
        sab = sab + np.abs(t)
        ex &= _f32exact(t) & _f32exact(tot) & (err == 0)
    return tot, sab, ex


def _exact_den_zero(idx, vals, P):
    """Exact rational evaluation of the denominator on the float32-cast inputs."""
    F = Fraction
    a, b = F(vals[0]), F(vals[1])
    if idx == "arvi":
        return a + 2 * b + F(vals[2]) == 0
    if idx == "evi":
        return a + F(P["c1"]) * b - F(P["c2"]) * F(vals[2]) + F(P["soil_factor"]) == 0
    if idx == "savi":
        L = F(P["soil_factor"])
        return (a + b + L) * (1 + L) == 0
    raise KeyError(idx)


def oracle(idx, X, P):
    """X: float64 copies of the float32-cast bands.  Returns dict of per-cell arrays:
    ref, bound, zero (denominator exactly 0 => NaN), undef (formula undefined => NaN), amb (skipped), nanin."""
    shape = X[0].shape
    nanin = np.zeros(shape, bool)
    for x in X:
        nanin |= np.isnan(x)
    undef = np.zeros(shape, bool)
    amb = np.zeros(shape, bool)
    with np.errstate(all="ignore"):
        if idx == "gci":
            a, b = X
            zero = (b == 0)
            q = a / b
            ref = q - 1.0
            # fl(fl(a/b) - 1): u|q| + u|ref| (+ final cast)  <=  4 eps32 (|q| + 1)
            bound = 4 * EPS * (np.abs(q) + 1.0) + TINY
        elif idx == "ebbi":
            red, swir, tir = X
            s = swir + tir                      # float32 a+b == 0  <=>  a == -b : no rounding ambiguity
            zero = (s == 0)
            undef = (s < 0)
            ref = (swir - red) / (10.0 * np.sqrt(s))
            # n, s: one rounding each on exact inputs; sqrt halves s's error; *10, /, cast: <= 5.5 u relative
            bound = 4 * EPS * np.abs(ref) + TINY
        else:
            gain = 1.0
            if idx == "arvi":
                a, b, c = X
                nt, dt = [a, -2.0 * b, c], [a, 2.0 * b, c]
            elif idx == "evi":
                a, b, c = X
                gain = float(P["gain"])
                nt, dt = [a, -b], [a, float(P["c1"]) * b, -float(P["c2"]) * c, np.full(shape, float(P["soil_factor"]))]
            elif idx == "sipi":
                a, b, c = X
                nt, dt = [a, -c], [a, -b]
            elif idx == "savi":
                a, b = X
                nt, dt = [a, -b], None
            else:                               # nbr, nbr2, ndvi, ndmi
                a, b = X
                nt, dt = [a, -b], [a, b]
            n, sn, exn = _sum_terms(nt)
            if idx == "savi":
                L = float(P["soil_factor"])
                soma, ssoma, exs = _sum_terms([a, b, np.full(shape, L)])
                d = soma * (1.0 + L)
                sd = ssoma * abs(1.0 + L)
                exd = exs & _f32exact(np.full(shape, 1.0 + L)) & _f32exact(d)
            else:
                d, sd, exd = _sum_terms(dt)
            q = n / d
            ref = gain * q
            twoterm = idx in ND or idx == "sipi"
            if twoterm:
                # n and d are single correctly rounded float32 operations on exact inputs: relative error <= 3u
                zero = (d == 0)
                bound = 4 * EPS * np.abs(ref) + TINY
            else:
                band = np.abs(d) <= 8 * EPS * sd
                zero = np.zeros(shape, bool)
                if idx == "savi" and 1.0 + float(P["soil_factor"]) == 0.0:
                    zero = ~nanin               # (nir+red+L) * 0 is 0 whatever the rounding of the first factor
                    band = np.zeros(shape, bool)
                for p in zip(*np.nonzero(band & ~nanin)):
                    ez = _exact_den_zero(idx, [float(x[p]) for x in X], P)
                    if ez and d[p] == 0 and exd[p]:
                        zero[p] = True          # exactly 0 and every partial sum float32-exact: any evaluation gives 0
                    else:
                        amb[p] = True           # a single-precision evaluation may or may not cancel to 0
                bound = 4 * EPS * abs(gain) * (np.abs(q) + (sn + np.abs(q) * sd) / np.abs(d)) + TINY
            exact = exn & exd
            bound = np.where(exact, 2 * EPS * np.abs(ref) + TINY, bound)
    return {"ref": ref, "bound": bound, "zero": zero & ~nanin, "undef": undef & ~nanin, "amb": amb & ~nanin, "nanin": nanin}


def _judge(idx, out, O):
    """Compare an output raster with the oracle.  Returns list of (predicate, cell)."""
    res = []
    if out.shape != O["ref"].shape:
        return [("shape", None)]
    out = out.astype("float64")
    isn = np.isnan(out)
    inf = np.isinf(out)
    zero, undef, amb, nanin, ref, bound = O["zero"], O["undef"], O["amb"], O["nanin"], O["ref"], O["bound"]

    def first(m):
        p = np.argwhere(m)
        return tuple(int(i) for i in p[0])
    if (inf & zero).any():
        res.append(("inf_at_zero_denominator", first(inf & zero)))
    elif inf.any():
        res.append(("inf", first(inf)))
    m = nanin & ~isn
    if m.any():
        res.append(("nan_band_not_propagated", first(m)))
    m = zero & ~isn & ~inf
    if m.any():
        res.append(("zero_denominator_not_nan", first(m)))
    m = undef & ~isn
    if m.any():
        res.append(("undefined_not_nan", first(m)))
    chk = ~(nanin | zero | undef | amb)
    m = chk & isn
    if m.any():
        res.append(("nan_where_defined", first(m)))
    with np.errstate(all="ignore"):
        bad = chk & ~isn & ~inf & (np.abs(out - ref) > bound)
        if bad.any():
            neg = bad & (np.abs(out + ref) <= bound)
            if neg.any():
                res.append(("value_negated", first(neg)))
            else:
                res.append(("value", first(bad)))
    return res


def _near_max(arrs):
    for a in arrs:
        if a.dtype.kind in "iu":
            mx = np.iinfo(a.dtype).max
            b = a.astype(object) if a.dtype.itemsize == 8 else a.astype("int64")
            if (b >= mx - (mx >> 6)).any():
                return True
    return False


def body_formula(case, ctx):
    idx = case["index"]
    arrs = _case_bands(case)
    P = _params(case)
    X = [a.astype("float32").astype("float64") for a in arrs]
    O = oracle(idx, X, P)
    backend = case.get("backend", "numpy")
    r = R()
    nz, nn, nm = bool(O["zero"].any() or O["undef"].any()), bool(O["nanin"].any()), _near_max(arrs)
    r.nt = nz or nn or nm
    r.amb = int(O["amb"].sum())
    dts = sorted(set(str(a.dtype) for a in arrs))
    r.label("formula", "index=" + idx, "backend=" + backend, *("dtype=" + d for d in dts))
    if len(dts) > 1:
        r.label("mixed_dtypes")
    if nz:
        r.label("zero_denominator_cell")
    if nn:
        r.label("nan_cell")
    if nm:
        r.label("int_near_max")
    if r.amb:
        r.label("has_ambiguous_cell")
    if "enum" in case:
        r.label("enum=" + case["enum"]["kind"])
    else:
        r.label("rel=" + case.get("rel", "?"), "pal=" + case.get("pal", "?"))
        if case.get("layout", "C") != "C":
            r.label("layout=" + case["layout"])
        if case.get("kw"):
            r.label("keyword_call")
        if any(float(np.min(x[~np.isnan(x)], initial=0)) < 0 for x in X):
            r.label("negative_values")
    if idx in ("savi", "evi"):
        L = float(P["soil_factor"])
        r.label("L=" + ("+1" if L == 1 else "-1" if L == -1 else "0" if L == 0 else "other"))
    out = _run_index(idx, arrs, case, backend)
    res = _judge(idx, out, O)
    if res:
        suffix = ""
        if backend == "dask":
            if not _judge(idx, _run_index(idx, arrs, case, "numpy"), O):
                suffix = "@dask_only"
        for pred, p in res:
            if p is None:
                r.fail("formula.%s.%s%s" % (idx, pred, suffix), "output shape %s, bands %s" % (out.shape, arrs[0].shape))
                continue
            r.fail("formula.%s.%s%s" % (idx, pred, suffix),
                   "%s cell %s: bands=%s (float32 %s) params=%s -> out=%r expected=%r bound=%.3g zero_den=%s backend=%s"
                   % (idx, p, [a[p].item() for a in arrs], [float(x[p]) for x in X], P, float(out[p]),
                      float(O["ref"][p]), float(O["bound"][p]), bool(O["zero"][p] or O["undef"][p]), backend))
    return r


# ---------------------------------------------------------------- metamorphic relations of the normalised differences

def _scaled(a, p):
    """a * 2^p without changing float32(a) * 2^p; None if that cannot be represented (then the relation is skipped)."""
    if a.dtype.kind == "f":
        return (a.astype("float64") * (2.0 ** p)).astype(a.dtype) if a.dtype.itemsize == 8 else (a * np.float32(2.0 ** p))
    py = [[int(v) << p if p >= 0 else None for v in row] for row in a.tolist()]
    if p >= 0:
        ii = np.iinfo(a.dtype)
        flat = [v for row in py for v in row]
        if all(ii.min <= v <= ii.max for v in flat):
            return np.array(py, dtype=a.dtype)
    if all(abs(int(v)) < 2 ** 53 for row in a.tolist() for v in row):
        return a.astype("float64") * (2.0 ** p)
    return None


def _bits(x):
    x = np.ascontiguousarray(x, dtype="float32").copy()
    x[np.isnan(x)] = np.nan
    return x.view("int32")


def body_nd(case, ctx):
    idx = case["index"]
    a, b = _case_bands(case)
    p = int(case["p"])
    backend = case.get("backend", "numpy")
    r = R()
    out = _run_index(idx, [a, b], case, backend)
    sw = _run_index(idx, [b, a], dict(case, chunks=case["chunks"][::-1] if case.get("chunks") else None), backend)
    r.label("metamorphic", "index=" + idx, "backend=" + backend, "dtype=" + str(a.dtype), "p=%s" % ("0" if p == 0 else "pos" if p > 0 else "neg"))
    if out.shape != a.shape or sw.shape != a.shape:
        return r.fail("nd.%s.shape" % idx, "bands %s -> output %s, swapped output %s (%s)" % (a.shape, out.shape, sw.shape, backend))
    fin = np.isfinite(out)
    with np.errstate(all="ignore"):
        af, bf = a.astype("float64"), b.astype("float64")
        nonneg = (af >= 0) & (bf >= 0)
        if nonneg.any():
            r.label("nonneg_cells")
        m = nonneg & ~np.isnan(out) & ~(np.abs(out.astype("float64")) <= 1.0)
        if m.any():
            q = tuple(int(i) for i in np.argwhere(m)[0])
            r.fail("nd.%s.range" % idx, "cell %s: %s(%r, %r) = %r outside [-1,1] (%s)" % (q, idx, a[q].item(), b[q].item(), float(out[q]), backend))
        okc = (out == -sw) | (np.isnan(out) & np.isnan(sw))     # -0.0 == +0.0: equal bands give +0 in both orders
        if not okc.all():
            q = tuple(int(i) for i in np.argwhere(~okc)[0])
            r.fail("nd.%s.swap_not_negated" % idx, "cell %s: %s(a=%r, b=%r) = %r but %s(b, a) = %r (%s)"
                   % (q, idx, a[q].item(), b[q].item(), float(out[q]), idx, float(sw[q]), backend))
    a2, b2 = _scaled(a, p), _scaled(b, p)
    if a2 is None or b2 is None:
        r.label("scale_skipped")
        p = 0
    else:
        sc = _run_index(idx, [a2, b2], case, backend)
        if sc.shape != out.shape or (_bits(sc) != _bits(out)).any():
            q = tuple(int(i) for i in np.argwhere(_bits(sc) != _bits(out))[0])
            r.fail("nd.%s.scale_changed" % idx, "cell %s: %s(%r, %r) = %r but scaled by 2^%d (%r, %r; dtype %s) = %r (%s)"
                   % (q, idx, a[q].item(), b[q].item(), float(out[q]), p, a2[q].item(), b2[q].item(), a2.dtype, float(sc[q]), backend))
        if a2.dtype != a.dtype:
            r.label("scaled_as_float64")
    r.nt = bool(p != 0 and (fin & (out != 0)).any())
    return r


# ---------------------------------------------------------------- true_color

def body_tc(case, ctx):
    import xarray as xr
    from xrspatial.multispectral import true_color
    arrs = [dec_arr(b) for b in case["bands"]]
    backend = case.get("backend", "numpy")
    chunks = case.get("chunks")
    ras = [_to_da(a, "C", backend, chunks[i] if (chunks and backend == "dask") else None) for i, a in enumerate(arrs)]
    kw = dict(case.get("params") or {})
    nodata = kw.get("nodata", 1)
    out = true_color(*ras, **kw)
    r = R()
    red = arrs[0]
    h, w = red.shape
    exp = np.empty((h, w), dtype="int64")
    eq = False
    for i in range(h):
        for j in range(w):
            v = red[i, j].item()
            isn = isinstance(v, float) and v != v
            exp[i, j] = 0 if (isn or v <= nodata) else 255
            eq = eq or (not isn and v == nodata) or isn
    r.nt = bool(eq or (exp.min() != exp.max()))
    r.label("true_color", "backend=" + backend, "dtype=" + str(red.dtype), "nodata=%s" % ("default" if "nodata" not in kw else nodata))
    if eq:
        r.label("red_nan_or_equal_nodata")
    if not isinstance(out, xr.DataArray):
        return r.fail("true_color.type", "returned %s" % type(out))
    data = out.data
    if backend == "dask":
        data = data.compute(scheduler="synchronous")
    data = np.asarray(data)
    if data.dtype != np.uint8:
        r.fail("true_color.dtype", "dtype %s, expected uint8" % data.dtype)
    if data.shape != (h, w, 4):
        return r.fail("true_color.shape", "shape %s, expected %s" % (data.shape, (h, w, 4)))
    if tuple(out.dims) != ("y", "x", "band"):
        r.label("observed:true_color_dims=%s" % (tuple(out.dims),))   # dimension names are not part of the statement
    alpha = data[:, :, 3].astype("int64")
    bad = alpha != exp
    if bad.any():
        q = tuple(int(i) for i in np.argwhere(bad)[0])
        v = red[q].item()
        if isinstance(v, float) and v != v:
            pred = "red_nan"
        elif v == nodata:
            pred = "red_equals_nodata"
        elif v < nodata:
            pred = "red_below_nodata"
        else:
            pred = "red_above_nodata"
        r.fail("true_color.alpha.%s" % pred, "cell %s: red=%r nodata=%r alpha=%d expected %d (%s)" % (q, v, nodata, alpha[q], exp[q], backend))
    return r


BODIES = {"formula": body_formula, "nd": body_nd, "tc": body_tc}


# ---------------------------------------------------------------- strategies

DT_POOL = ["uint8", "uint8", "uint16", "uint16", "int16", "int32", "float32", "float32", "float32", "float64", "float64", "float64",
           "int8", "uint32", "int64", "uint64"]
L_VALUES = [1.0, 1.0, 0.0, -1.0, 0.5, -0.5, 0.25, -0.75, 0.125, -0.3, 0.1]
C_VALUES = [6.0, 7.5, 0.0, 1.0, 2.5, 0.5, 3.0, 2.4]
G_VALUES = [2.5, 1.0, 0.0, 2.0, 0.5, 3.3]


def _int_elem(dtype, pal):
    ii = np.iinfo(dtype)
    lo, hi = int(ii.min), int(ii.max)
    if pal == "small":
        return st.integers(max(lo, -4), 6) if lo < 0 else st.integers(0, 7)
    bnd = st.sampled_from(_boundary_values(dtype))
    if pal == "bnd":
        return st.one_of(bnd, bnd, bnd, st.integers(max(lo, hi - 40), hi), st.integers(lo, min(hi, lo + 40)))
    return st.one_of(bnd, st.integers(lo, hi), st.integers(lo, hi))


def _float_elem(dtype, pal):
    if pal == "smallint":
        return st.sampled_from([float(v) for v in S.PAL_SMALLINT])
    if pal == "signed":
        return st.sampled_from([float(v) for v in S.PAL_SIGNED])
    if pal == "halves":
        return st.sampled_from(S.PAL_HALVES)
    if pal == "nonf32":
        return st.sampled_from(S.PAL_NONF32)
    if pal == "tiny":   # radiance-scaled / dark cells: every difference is far below 1e-7 and still not zero
        return st.sampled_from([1e-8, 2.5e-8, 3e-9, 7e-8, 1.5e-8, 0.0, -2e-8, 6e-9])
    width = 32 if dtype == "float32" else 64
    pos = st.floats(min_value=2.0 ** -20, max_value=2.0 ** 20, width=width, allow_nan=False)
    if pal == "freepos":
        return st.one_of(pos, pos, pos, st.just(0.0))
    return st.one_of(pos, pos, pos.map(lambda v: -v), st.just(0.0))


INT_PALS = ["small", "bnd", "bnd", "full"]
FLOAT_PALS = ["smallint", "signed", "halves", "nonf32", "free", "free", "freepos", "tiny"]


def _neg_ok(dtype):
    return np.dtype(dtype).kind != "u"


def _negate(v, dtype):
    if v == "nan":
        return v
    dt = np.dtype(dtype)
    if dt.kind == "i":
        ii = np.iinfo(dt)
        return -v if ii.min <= -v <= ii.max else 0
    return -v


@st.composite
def band_set(draw, nb, max_side, pair=(0, 1), want_nan=True, rels=("indep", "indep", "indep", "indep", "cellmix", "cellmix", "equal", "neg")):
    """nb flat bands of one shape with a drawn relation between the `pair` bands.  Returns (h, w, dtypes, flats, meta)."""
    h, w = draw(S.shapes(1, max_side))
    n = h * w
    rel = draw(st.sampled_from(list(rels)))
    mixed = rel == "indep" and draw(st.integers(0, 6)) == 0
    dtype = draw(st.sampled_from(DT_POOL))
    dtypes = [draw(st.sampled_from(DT_POOL)) for _ in range(nb)] if mixed else [dtype] * nb
    isf = dtype.startswith("float")
    pal = draw(st.sampled_from(FLOAT_PALS if isf else INT_PALS))
    flats = []
    for k in range(nb):
        dk = dtypes[k]
        pk = pal if dk == dtype else draw(st.sampled_from(FLOAT_PALS if dk.startswith("float") else INT_PALS))
        elem = _float_elem(dk, pk) if dk.startswith("float") else _int_elem(dk, pk)
        flats.append(draw(st.lists(elem, min_size=n, max_size=n)))
    i, j = pair
    if rel == "neg" and not _neg_ok(dtype):
        rel = "equal"
    if rel == "equal":
        flats[j] = list(flats[i])
    elif rel == "neg":
        flats[j] = [_negate(v, dtype) for v in flats[i]]
    elif rel == "cellmix":
        modes = draw(st.lists(st.integers(0, 4), min_size=n, max_size=n))
        for c, m in enumerate(modes):
            if m == 1:
                flats[j][c] = flats[i][c]
            elif m == 2 and _neg_ok(dtype):
                flats[j][c] = _negate(flats[i][c], dtype)
            elif m == 3:
                for k in range(nb):
                    flats[k][c] = 0.0 if isf else 0
            elif m == 4 and isf and flats[i][c] != "nan" and abs(flats[i][c]) >= 2.0 ** -20:   # not around 0: its neighbours are subnormal
                # one float32 ulp apart: sums / differences of the pair are tiny but NOT zero, the index is defined there
                flats[j][c] = float(np.nextafter(np.float32(flats[i][c]), np.float32(np.inf if c % 2 else -np.inf)))
    # NaN cells (float bands only)
    if want_nan:
        nanmode = draw(st.sampled_from(["none", "none", "one", "some", "half"]))
        for k in range(nb):
            if not dtypes[k].startswith("float") or nanmode == "none":
                continue
            if nanmode == "one":
                flats[k][draw(st.integers(0, n - 1))] = "nan"
            else:
                thr = 1 if nanmode == "some" else 4
                mask = draw(st.lists(st.integers(0, 7), min_size=n, max_size=n))
                flats[k] = ["nan" if mk < thr else v for v, mk in zip(flats[k], mask)]
    return h, w, dtypes, flats, {"rel": rel, "pal": pal}


def _f32(v):
    return float(np.float32(v))


def _cast32(v, dtype):
    """float32 cast of a drawn value of the given dtype, as an exact Fraction (None for NaN)."""
    if v == "nan":
        return None
    x = float(np.array([v], dtype=dtype).astype("float32")[0]) if not dtype.startswith("float") else _f32(v)
    return Fraction(x)


def _shape2(flat, w):
    return [flat[k * w:(k + 1) * w] for k in range(len(flat) // w)]


@st.composite
def _backend(draw, h, w, nb):
    if draw(st.integers(0, 4)) == 0:
        return "dask", [[draw(S.chunking(h)), draw(S.chunking(w))] for _ in range(nb)]
    return "numpy", None


@st.composite
def formula_cases(draw, max_side, index=None):
    idx = index or draw(st.sampled_from(INDICES))
    nb = len(INDEX_ARGS[idx])
    h, w, dtypes, flats, meta = draw(band_set(nb, max_side, DEN_PAIR.get(idx, (0, 1))))
    n = h * w
    params = {}
    if idx == "gci" and draw(st.booleans()):
        # green == 0 is the zero denominator: force some zero cells
        for c in draw(st.lists(st.integers(0, n - 1), min_size=1, max_size=3)):
            flats[1][c] = 0.0 if dtypes[1].startswith("float") else 0
    if idx == "arvi" and draw(st.integers(0, 2)) == 0:
        # solve blue = -(nir + 2 red) where representable in blue's dtype and exactly in float32
        for c in draw(st.lists(st.integers(0, n - 1), min_size=1, max_size=4)):
            a, b = _cast32(flats[0][c], dtypes[0]), _cast32(flats[1][c], dtypes[1])
            if a is None or b is None:
                continue
            t = -(a + 2 * b)
            if dtypes[2].startswith("float"):
                if Fraction(_f32(float(t))) == t:
                    flats[2][c] = float(t)
            elif t.denominator == 1 and np.iinfo(dtypes[2]).min <= int(t) <= np.iinfo(dtypes[2]).max \
                    and _cast32(int(t), dtypes[2]) == t:
                flats[2][c] = int(t)
        meta = dict(meta, rel=meta["rel"] + "+solved")
    if idx == "savi":
        mode = draw(st.sampled_from(["default", "list", "list", "solve"]))
        if mode == "list":
            params["soil_factor"] = draw(st.sampled_from(L_VALUES))
        elif mode == "solve":
            c = draw(st.integers(0, n - 1))
            a, b = _cast32(flats[0][c], dtypes[0]), _cast32(flats[1][c], dtypes[1])
            L = None if a is None or b is None else -(a + b)
            params["soil_factor"] = float(L) if (L is not None and abs(L) <= 1 and Fraction(float(L)) == L) else draw(st.sampled_from(L_VALUES))
    if idx == "evi":
        mode = draw(st.sampled_from(["default", "list", "list", "solve"]))
        if mode != "default":
            params = {"c1": draw(st.sampled_from(C_VALUES)), "c2": draw(st.sampled_from(C_VALUES)),
                      "soil_factor": draw(st.sampled_from(L_VALUES)), "gain": draw(st.sampled_from(G_VALUES))}
            if draw(st.integers(0, 3)) == 0:
                params["c1"], params["gain"] = 6, 2          # ints are accepted by the validation
            if mode == "solve":
                c = draw(st.integers(0, n - 1))
                v = [_cast32(flats[k][c], dtypes[k]) for k in range(3)]
                if None not in v:
                    L = -(v[0] + Fraction(params["c1"]) * v[1] - Fraction(params["c2"]) * v[2])
                    if abs(L) <= 1 and Fraction(float(L)) == L:
                        params["soil_factor"] = float(L)
            drop = draw(st.sampled_from([[], [], ["gain"], ["c1", "c2"], ["soil_factor"]]))
            for k in drop:
                params.pop(k, None)
    backend, chunks = draw(_backend(h, w, nb))
    case = {"sub": "formula", "index": idx,
            "bands": [{"dtype": dtypes[k], "data": _shape2(flats[k], w)} for k in range(nb)],
            "params": params, "backend": backend, "kw": draw(st.booleans()),
            "layout": draw(st.sampled_from(["C"] * 8 + ["F", "view"])), "rel": meta["rel"], "pal": meta["pal"]}
    if chunks:
        case["chunks"] = chunks
    return case


@st.composite
def nd_cases(draw, max_side):
    idx = draw(st.sampled_from(ND))
    h, w, dtypes, flats, meta = draw(band_set(2, max_side, rels=["indep"] * 9 + ["cellmix"] * 4 + ["equal", "neg"]))
    backend, chunks = draw(_backend(h, w, 2))
    case = {"sub": "nd", "index": idx, "bands": [{"dtype": dtypes[k], "data": _shape2(flats[k], w)} for k in range(2)],
            "p": draw(st.sampled_from([-8, -7, -3, -2, -1, 1, 1, 2, 3, 5, 8, 0])), "backend": backend, "kw": draw(st.booleans()),
            "rel": meta["rel"], "pal": meta["pal"]}
    if chunks:
        case["chunks"] = chunks
    return case


@st.composite
def tc_cases(draw, max_side):
    h, w = draw(S.shapes(1, max_side))
    n = h * w
    params = {}
    mode = draw(st.sampled_from(["default", "nodata", "nodata", "all"]))
    if mode != "default":
        params["nodata"] = draw(st.sampled_from([1, 0, -1, 0.5, 2, 2.0, 100, 255, 1.0]))
    if mode == "all":
        params["c"] = draw(st.sampled_from([10.0, 1.0, 0.0, 25.5]))
        params["th"] = draw(st.sampled_from([0.125, 0.0, 0.5, 1.0]))
    nodata = params.get("nodata", 1)
    bands = []
    for k in range(3):
        dtype = draw(st.sampled_from(DT_POOL))
        isf = dtype.startswith("float")
        ii = None if isf else np.iinfo(dtype)
        near = [nodata, nodata - 1, nodata + 1, 0, 1, 2, 3] + ([nodata - 0.5, nodata + 0.25, -0.0] if isf else [])
        near = [float(v) if isf else int(v) for v in near if isf or (float(v) == int(v) and ii.min <= int(v) <= ii.max)]
        wide = _float_elem(dtype, "free") if isf else _int_elem(dtype, "full")
        elem = st.one_of(st.sampled_from(near), st.sampled_from(near), wide)
        flat = draw(st.lists(elem, min_size=n, max_size=n))
        if isf and draw(st.booleans()):
            mask = draw(st.lists(st.integers(0, 5), min_size=n, max_size=n))
            flat = ["nan" if mk == 0 else v for v, mk in zip(flat, mask)]
        bands.append({"dtype": dtype, "data": _shape2(flat, w)})
    backend, chunks = draw(_backend(h, w, 3))
    if chunks:
        chunks = [chunks[0]] * 3        # true_color does not call validate_arrays: bands share one chunking
    case = {"sub": "tc", "bands": bands, "params": params, "backend": backend}
    if chunks:
        case["chunks"] = chunks
    return case


# ---------------------------------------------------------------- enumerations

def enum_cases(kind, indices):
    for idx in indices:
        nb = len(INDEX_ARGS[idx])
        if kind == "pairs":
            for dtype in ("uint8", "int8"):
                lo = int(np.iinfo(dtype).min)
                thirds = [lo, lo + 255, "pat"] if nb == 3 else [None]
                for t in thirds:
                    for params in _enum_params(idx):
                        e = {"kind": "pairs", "dtype": dtype}
                        if t is not None:
                            e["third"] = t
                        yield {"sub": "formula", "index": idx, "enum": e, "params": params}
        else:
            for dtype in S.ALL_DTYPES:
                for params in _enum_params(idx):
                    yield {"sub": "formula", "index": idx, "enum": {"kind": "boundary", "dtype": dtype}, "params": params}


def _enum_params(idx):
    if idx == "savi":
        return [{}, {"soil_factor": 0.0}, {"soil_factor": -1.0}, {"soil_factor": -0.5}]
    if idx == "evi":
        return [{}, {"c1": 1.0, "c2": 1.0, "soil_factor": 0.0, "gain": 1.0}, {"c1": 2.5, "c2": 0.0, "soil_factor": -1.0, "gain": 2.0}]
    return [{}]


def _enum_size(kind, indices):
    return sum(1 for _ in enum_cases(kind, indices))


def shards(tier):
    out = []
    thorough = tier == "thorough"
    side = 16 if thorough else 8
    nf, per_f = (16, 5000) if thorough else (10, 500)
    nn, per_n = (6, 3000) if thorough else (3, 350)
    nt, per_t = (4, 3000) if thorough else (2, 350)
    for i in range(nf):
        out.append(("formula_rand#%d" % i, lambda ctx, i=i: drive_hypothesis(ctx, body_formula, formula_cases(side), per_f)))
    for i in range(nn):
        out.append(("nd_rand#%d" % i, lambda ctx, i=i: drive_hypothesis(ctx, body_nd, nd_cases(side), per_n)))
    for i in range(nt):
        out.append(("tc_rand#%d" % i, lambda ctx, i=i: drive_hypothesis(ctx, body_tc, tc_cases(side), per_t)))
    groups = [INDICES[0:2], INDICES[2:6], INDICES[6:8], INDICES[8:10]]
    for g in groups:
        out.append(("enum_pairs_%s" % "_".join(g), lambda ctx, g=g: drive_enum(
            ctx, body_formula, enum_cases("pairs", g), space="all (a,b) pairs of uint8 and int8 x third-band variants x parameter sets: %s" % ",".join(g),
            size=_enum_size("pairs", g))))
    out.append(("enum_boundary", lambda ctx: drive_enum(
        ctx, body_formula, enum_cases("boundary", INDICES), space="all pairs/triples of per-dtype boundary values x 10 dtypes x 10 indices",
        size=_enum_size("boundary", INDICES))))
    return out


LEVEL_TEXT = ("Randomised (Hypothesis) search over band rasters of every integer and float dtype (values at and near the dtype maxima, zeros, equal and "
              "negated bands, NaN cells), parameters and backends, each output cell compared with the published formula evaluated in float64 on the "
              "float32-cast bands under a stated forward error bound, with exact-rational detection of zero denominators; metamorphic relations "
              "(range, swap, power-of-two scaling) for the four normalised differences; alpha rule for true_color; plus bounded-exhaustive "
              "enumeration of all 8-bit band pairs and all boundary-value pairs/triples per dtype for every index.")
LEVEL_NOTE = ("Deviations smaller than the float32 forward bound are not detected; cells whose 3-/4-term denominator lies inside 8*eps32*sum|terms| "
              "are skipped and counted as ambiguous; true_color RGB channel values are not constrained by the statement and are not checked; "
              "outside the enumerated 8-bit/boundary spaces absence of violations is sampled, not proven.")
TECHNIQUE = "property-based testing (Hypothesis) + bounded-exhaustive enumeration against a float64 formula oracle and metamorphic relations"
