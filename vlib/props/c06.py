"""C06 - proximity / allocation / direction name one real target, never under-estimated."""
import math

import numpy as np
from hypothesis import strategies as st

from .. import strategies as S
from ..core import R, dec_arr, dec_list, dec_scalar, drive_enum, drive_hypothesis
from ..oracles import proximity as P

PROP = "C06"
G = 1000.0  # coordinate gap between batched tiles (>> tile diagonal), see DESIGN Appendix B

# Exhaustive family: grid shapes on which the GDAL-style sweep is exact for EVERY 0/1 target layout on the unchanged tree
# (measured; the sweep is not exact in general, e.g. 96 of the 65 536 4x4 EUCLIDEAN layouts over-estimate one cell, which the
# property allows).  A regression oracle any change to the sweeps must keep.
FAMILY = {
    "EUCLIDEAN": [(1, n) for n in range(1, 19)] + [(2, n) for n in range(2, 10)] + [(3, n) for n in range(3, 7)],
    "MANHATTAN": [(1, n) for n in range(1, 17)] + [(2, n) for n in range(2, 9)] + [(3, 3), (3, 4), (3, 5), (3, 6), (4, 4)],
}

RULE = ("Generator: rasters H,W <= 10 (float64/float32/int32/int64), targets by the default rule (non-zero finite; zeros, NaN, +-inf non-targets) or explicit "
        "target_values (incl. 0, absent values), distinct float32-exact target values (allocation identifies the cell) and duplicated ones, metric "
        "{EUCLIDEAN, MANHATTAN, GREAT_CIRCLE on lon/lat}, max_distance {inf, >= diagonal, k*cell +- delta, fraction of a cell}, asc/desc non-square "
        "coordinates, alternative dim names; all three functions called on the same input. Oracle: validity predicates 1-6 of DESIGN C06 (zero iff target; "
        "every non-NaN proximity is the float64 distance to an actual target whose value allocation reports and whose bearing direction reports; never "
        "below the true nearest distance, never above max_distance; no NaN when unbounded; NaN in all three when nothing within max_distance; single target "
        "exact). Exhaustive family: every 0/1 target layout of the FAMILY grid shapes (and their transposes) equals the exact nearest distance, run "
        "tile-batched (coordinate gaps of 1000 between tiles), a disagreeing tile re-run in isolation before it is reported. Non-trivial: >= 2 targets and "
        ">= 1 non-target cell. Distinct by SHA-1 (random) / enumeration index (layouts).")
ASSUMPTIONS = ["target values are float32-exact (allocation is stored in float32)", "GREAT_CIRCLE coordinates inside [-180,180]x[-90,90]",
               "explicit target_values are finite", "exactness is only claimed on the measured FAMILY shapes and for single targets (statement)"]
BUDGET_S = {"quick": 220, "thorough": 1500}


def _axis(spec):
    if isinstance(spec, list):          # explicit (possibly non-uniform) coordinate vector
        return np.asarray(spec, dtype="float64")
    return S.mk_axis(spec)


def _build(case):
    import xarray as xr
    a = dec_arr(case["raster"])
    ys, xs = _axis(case["y"]), _axis(case["x"])
    dims = case.get("dims", ["y", "x"])
    return a, ys, xs, xr.DataArray(a.copy(), dims=dims, coords={dims[0]: ys, dims[1]: xs}, attrs={"res": 1})


def body_rand(case, ctx):
    from xrspatial import allocation, direction, proximity
    a, ys, xs, ras = _build(case)
    H, W = a.shape
    metric = case["metric"]
    tv = dec_list(case["target_values"])
    md = dec_scalar(case["max_distance"])
    md = float("inf") if md is None else float(md)
    dims = case.get("dims", ["y", "x"])
    kw = dict(x=dims[1], y=dims[0], target_values=list(tv), max_distance=md, distance_metric=metric)
    af = a.astype("float64")
    tmask = P.target_mask(af, tv)
    targets = [tuple(t) for t in np.argwhere(tmask)]
    D = P.dist_matrix(xs, ys, metric)            # (n, n) float64
    n = H * W
    tidx = [t[0] * W + t[1] for t in targets]
    near = D[:, tidx].min(axis=1) if tidx else np.full(n, np.inf)
    r = R()
    r.nt = len(targets) >= 2 and len(targets) < n
    r.label("metric=" + metric, "dtype=" + str(a.dtype), "ntargets=%s" % ("0" if not targets else "1" if len(targets) == 1 else ">=2"))
    if tv:
        r.label("explicit_target_values")
    if math.isfinite(md):
        r.label("finite_max_distance")
    if case.get("gc_global"):
        r.label("great_circle_wide_grid")
    if isinstance(case["y"], list):
        r.label("clustered_nonuniform_coords")
    else:
        if case["y"]["step"] != case["x"]["step"]:
            r.label("nonsquare_cells")
        if case["y"].get("desc") or case["x"].get("desc"):
            r.label("descending_axis")
    if len(tidx) >= 2:
        srt = np.sort(D[:, tidx], axis=1)
        if (np.abs(srt[:, 0] - srt[:, 1]) <= 1e-9 * np.maximum(1, srt[:, 0])).any():
            r.label("equidistant_targets")
    Pr = np.asarray(proximity(ras, **kw).values, dtype="float64")
    Al = np.asarray(allocation(ras, **kw).values, dtype="float64")
    Dr = np.asarray(direction(ras, **kw).values, dtype="float64")
    if Pr.shape != a.shape or Al.shape != a.shape or Dr.shape != a.shape:
        return r.fail("shape", "%s %s %s" % (Pr.shape, Al.shape, Dr.shape))
    tol = lambda d: 2e-6 * max(1.0, d)  # noqa: float32 storage
    both = False
    for p in range(n):
        i, j = divmod(p, W)
        pv, av, dv = Pr[i, j], Al[i, j], Dr[i, j]
        is_t = bool(tmask[i, j])
        info = "cell (%d,%d): prox %r alloc %r dir %r, true nearest %r, max_distance %r\nraster=%s xs=%s ys=%s target_values=%s" % (
            i, j, pv, av, dv, near[p], md, a.tolist(), xs.tolist(), ys.tolist(), tv)
        # 0 exactly on target cells; a non-target cell may hold 0 only if it coincides with a target under the metric
        # (lon -180 / 180 or any longitude at a pole are the same point on the sphere)
        if (is_t and pv != 0) or (pv == 0 and not is_t and near[p] > 1e-6):
            return r.fail("zero_iff_target", info)
        if math.isnan(pv):
            if math.isinf(md) and targets:
                return r.fail("nan_with_unbounded_max_distance", info)
            if not (math.isnan(av) and math.isnan(dv)):
                return r.fail("nan_not_in_all_three", info)
            if near[p] <= md * (1 - 1e-5):
                both = True  # within reach yet NaN: not asserted by the statement (propagation need not reach)
            continue
        if math.isnan(av) or math.isnan(dv):
            return r.fail("nan_not_in_all_three", info)
        if near[p] > md * (1 + 1e-5):
            return r.fail("value_beyond_max_distance_should_be_nan", info)
        if pv < near[p] - tol(near[p]):
            return r.fail("underestimate", info)
        if pv > md * (1 + 1e-5):
            return r.fail("over_max_distance", info)
        ok = False
        dist_ok = False
        for t, ti in zip(targets, tidx):
            d = D[p, ti]
            if abs(d - pv) <= tol(d):
                dist_ok = True
                b = P.bearing(xs[j], ys[i], xs[t[1]], ys[t[0]])
                bd = abs(dv - b)
                bd = min(bd, 360 - bd)
                if av == float(np.float32(af[t])) and bd <= 1e-3:
                    ok = True
                    break
        if not ok:
            return r.fail("no_consistent_target" if dist_ok else "distance_to_no_target", info)
        if len(targets) == 1 and math.isinf(md) and abs(pv - near[p]) > tol(near[p]):
            return r.fail("single_target_inexact", info)
    if math.isfinite(md) and np.isnan(Pr).any() and (~np.isnan(Pr)).any():
        r.label("max_distance_splits_raster")
    return r


# ---------------------------------------------------------------- exhaustive family (tile batched)

def _tile_coords(h, w, nI, nJ):
    ys = (np.arange(nI)[:, None] * G + np.arange(h)[None, :]).ravel()
    xs = (np.arange(nJ)[:, None] * G + np.arange(w)[None, :]).ravel()
    return ys.astype("float64"), xs.astype("float64")


def _exact(bits, D):
    """bits (B,n) bool, D (n,n) -> exact nearest distances (B,n)"""
    big = np.where(bits[:, None, :], D[None, :, :], np.inf)
    return big.min(axis=2)


def _isolated(h, w, bits, metric, md=None):
    import xarray as xr
    from xrspatial import proximity
    a = np.asarray(bits, dtype="float64").reshape(h, w)
    ras = xr.DataArray(a, dims=["y", "x"], coords={"y": np.arange(h, dtype="float64"), "x": np.arange(w, dtype="float64")})
    return np.asarray(proximity(ras, distance_metric=metric, max_distance=np.inf if md is None else md).values, dtype="float64")


def _agree(got, ex, md):
    """elementwise: got equals the exact nearest distance (NaN beyond max_distance; a 1e-5 band around max_distance is not decided)"""
    ok = np.abs(got - ex) <= 2e-6 * np.maximum(1, ex)
    if md is not None:
        beyond = ex > md * (1 + 1e-5)
        band = np.abs(ex - md) <= 1e-5 * md
        ok = np.where(beyond, np.isnan(got), ok) | band
    return ok


def body_layout(case, ctx):
    """One isolated target layout of a FAMILY shape: proximity must equal the exact nearest distance."""
    h, w, metric = case["h"], case["w"], case["metric"]
    bits = np.array(case["bits"], dtype=bool)
    D = P.dist_matrix(np.arange(w), np.arange(h), metric)
    ex = _exact(bits[None, :], D)[0].reshape(h, w)
    md = case.get("md")
    got = _isolated(h, w, bits, metric, md)
    r = R(nt=bits.sum() >= 2 and bits.sum() < h * w)
    bad = ~_agree(got, ex, md)
    if bad.any():
        r.fail("exact_family[%s%s]" % (metric, ",finite_max_distance" if md is not None else ""), "%dx%d layout %s max_distance %r: proximity %s, exact %s" % (
            h, w, bits.astype(int).reshape(h, w).tolist(), md, got.tolist(), ex.tolist()))
    return r


def body_tiles(case, ctx):
    """A block [lo,hi) of target layouts of an h x w grid, batched into one raster of far-apart tiles."""
    import xarray as xr
    from xrspatial import proximity
    h, w, lo, hi, metric = case["h"], case["w"], case["lo"], case["hi"], case["metric"]
    md = case.get("md")
    n = h * w
    idx = np.arange(max(lo, 1), hi, dtype=np.int64)
    B = len(idx)
    r = R()
    if B == 0:
        return r
    bits = ((idx[:, None] >> np.arange(n)[None, :]) & 1).astype(bool)
    nJ = min(B, 128)
    nI = -(-B // nJ)
    full = np.zeros((nI * nJ, n), dtype=bool)
    full[:B] = bits
    full[B:] = bits[0]   # pad with a valid layout
    img = full.reshape(nI, nJ, h, w).transpose(0, 2, 1, 3).reshape(nI * h, nJ * w).astype("float64")
    ys, xs = _tile_coords(h, w, nI, nJ)
    ras = xr.DataArray(img, dims=["y", "x"], coords={"y": ys, "x": xs})
    out = np.asarray(proximity(ras, distance_metric=metric, max_distance=np.inf if md is None else md).values, dtype="float64")
    tiles = out.reshape(nI, h, nJ, w).transpose(0, 2, 1, 3).reshape(nI * nJ, n)[:B]
    D = P.dist_matrix(np.arange(w), np.arange(h), metric)
    ex = _exact(bits, D)
    bad = ~_agree(tiles, ex, md)
    badrows = np.where(bad.any(axis=1))[0]
    r.nt = True
    r.weight = B
    r.label("tile_batches")
    checked_iso = 0
    for k in badrows[:5]:
        one = {"sub": "layout", "h": h, "w": w, "metric": metric, "bits": bits[k].astype(int).tolist(), "md": md}
        rr = body_layout(one, ctx)
        checked_iso += 1
        if rr.fails:
            r.fails.extend(rr.fails)
            r.repro = one
            return r
    if len(badrows):
        # batched disagreement that does not reproduce in isolation: the batching argument failed, not the property
        r.fail("harness.tile_batching_disagrees_with_isolation", "%dx%d %s layouts %s" % (h, w, metric, idx[badrows[:5]].tolist()))
        return r
    # continuous self-check of the batching argument: two agreeing tiles re-run alone
    for k in (0, B // 2):
        got = _isolated(h, w, bits[k], metric, md).ravel()
        if not np.allclose(got, tiles[k], rtol=0, atol=0, equal_nan=True):
            r.fail("harness.tile_batching_disagrees_with_isolation", "%dx%d %s layout %d" % (h, w, metric, idx[k]))
    return r


def body_single(case, ctx):
    """Every single-target position of an h x w grid (one isolated call per position block is too slow: tile-batched, isolation on failure)."""
    import xarray as xr
    from xrspatial import proximity
    h, w, metric = case["h"], case["w"], case["metric"]
    n = h * w
    sy, sx = case.get("sy", 1.0), case.get("sx", 1.0)
    bits = np.eye(n, dtype=bool)
    nJ = min(n, 16)
    nI = -(-n // nJ)
    full = np.zeros((nI * nJ, n), dtype=bool)
    full[:n] = bits
    full[n:] = bits[0]
    img = full.reshape(nI, nJ, h, w).transpose(0, 2, 1, 3).reshape(nI * h, nJ * w).astype("float64")
    ys = (np.arange(nI)[:, None] * G * sy + np.arange(h)[None, :] * sy).ravel()
    xs = (np.arange(nJ)[:, None] * G * sx + np.arange(w)[None, :] * sx).ravel()
    ras = xr.DataArray(img, dims=["y", "x"], coords={"y": ys, "x": xs})
    out = np.asarray(proximity(ras, distance_metric=metric).values, dtype="float64")
    tiles = out.reshape(nI, h, nJ, w).transpose(0, 2, 1, 3).reshape(nI * nJ, n)[:n]
    D = P.dist_matrix(np.arange(w) * sx, np.arange(h) * sy, metric)
    r = R(nt=True)
    r.weight = n
    bad = ~(np.abs(tiles - D) <= 2e-6 * np.maximum(1, D))
    for k in np.where(bad.any(axis=1))[0][:3]:
        a = bits[k].astype("float64").reshape(h, w)
        one = xr.DataArray(a, dims=["y", "x"], coords={"y": np.arange(h) * sy, "x": np.arange(w) * sx})
        got = np.asarray(proximity(one, distance_metric=metric).values, dtype="float64").ravel()
        if (~(np.abs(got - D[k]) <= 2e-6 * np.maximum(1, D[k]))).any():
            r.fail("single_target_inexact", "%dx%d %s (steps %s,%s) target at %s: %s vs %s" % (h, w, metric, sy, sx, divmod(int(k), w), got.tolist(), D[k].tolist()))
            r.repro = {"sub": "rand", "raster": {"dtype": "float64", "data": a.tolist()}, "y": {"start": 0, "step": sy, "n": h, "desc": False},
                       "x": {"start": 0, "step": sx, "n": w, "desc": False}, "metric": metric, "target_values": [], "max_distance": None}
            return r
    if bad.any():
        r.fail("harness.tile_batching_disagrees_with_isolation", "single %dx%d" % (h, w))
    return r


BODIES = {"rand": body_rand, "layout": body_layout, "tiles": body_tiles, "single": body_single}


# ---------------------------------------------------------------- strategies

@st.composite
def rand_cases(draw, max_side):
    h, w = draw(S.shapes(1, max_side))
    metric = draw(st.sampled_from(["EUCLIDEAN", "EUCLIDEAN", "MANHATTAN", "GREAT_CIRCLE"]))
    if metric == "GREAT_CIRCLE":
        sx = draw(st.sampled_from([0.001, 0.5, 10.0, 30.0]))
        sy = draw(st.sampled_from([0.001, 0.5, 5.0, 15.0]))
        sx = min(sx, 340.0 / max(w, 2))
        sy = min(sy, 170.0 / max(h, 2))
        y = {"start": draw(st.sampled_from([-80.0, -5.0, 0.0, 40.0])), "step": sy, "n": h, "desc": draw(st.booleans())}
        x = {"start": draw(st.sampled_from([-170.0, -10.0, 0.0, 100.0])), "step": sx, "n": w, "desc": draw(st.booleans())}
        if y["start"] + sy * (h - 1) > 90:
            y["start"] = 90 - sy * (h - 1)
        if x["start"] + sx * (w - 1) > 180:
            x["start"] = 180 - sx * (w - 1)
        unit = P.haversine(0, sx, 0, 0)
    else:
        y = draw(S.axis_coords(h, steps=(1, 0.5, 2, 0.25, 3, 2.5), offsets=(0, -7.5, 10.25, 100)))
        x = draw(S.axis_coords(w, steps=(1, 0.5, 2, 0.25, 3, 2.5), offsets=(0, -7.5, 10.25, 100)))
        unit = x["step"]
    dtype = draw(st.sampled_from(["float64", "float64", "float32", "int32", "int64"]))
    isf = dtype.startswith("float")
    dens = draw(st.sampled_from([0, 1, 2, 4, 10]))
    vals = [v * (0.5 if isf else 1) for v in range(1, 20)] + [-1, -2, -7]
    nontarget = [0] + (["nan", "inf", "-inf"] if isf else [])
    if dens == 0:
        # exactly one target
        flat = [0] * (h * w)
        flat[draw(st.integers(0, h * w - 1))] = draw(st.sampled_from(vals))
    else:
        tv_el = st.sampled_from(vals[:6]) if draw(st.booleans()) else st.sampled_from(vals)   # duplicated vs mostly distinct
        elem = st.one_of(*([st.sampled_from(nontarget)] * dens + [st.just(0)] * dens + [tv_el]))
        flat = draw(st.lists(elem, min_size=h * w, max_size=h * w))
    present = [v for v in dict.fromkeys(flat) if not isinstance(v, str) and v != 0]
    tvmode = draw(st.sampled_from(["default", "default", "one", "one+zero", "absent", "two"]))
    if tvmode == "default" or not present:
        tv = []
    elif tvmode == "one":
        tv = [present[0]]
    elif tvmode == "one+zero":
        tv = [present[0], 0]
    elif tvmode == "absent":
        tv = [77]
    else:
        tv = present[:2]
    diag = math.hypot((h - 1) * y["step"], (w - 1) * x["step"]) if metric != "GREAT_CIRCLE" else None
    mdmode = draw(st.sampled_from(["inf", "inf", "kcell", "kcell", "frac", "diag"]))
    if mdmode == "inf":
        md = None
    elif mdmode == "kcell":
        k = draw(st.integers(1, max(h, w)))
        md = k * unit * draw(st.sampled_from([0.999, 1.0, 1.001, 1.3, 1.4143]))
    elif mdmode == "frac":
        md = unit * draw(st.sampled_from([0.3, 0.5, 0.9]))
    else:
        md = (diag * draw(st.sampled_from([1.0, 1.5])) + 1e-9) if diag else 4.1e7
    case = {"sub": "rand", "raster": {"dtype": dtype, "data": [flat[i * w:(i + 1) * w] for i in range(h)]}, "y": y, "x": x,
            "metric": metric, "target_values": tv, "max_distance": md}
    if draw(st.integers(0, 4)) == 0:
        case["dims"] = ["lat", "lon"]
    return case


@st.composite
def multi_cases(draw):
    """One raster made of gi x gj small random tiles separated by coordinate gaps (a legitimate non-uniform-coordinate input):
    16 random layouts per (1.3 s) call; predicates 1-6 are checked on the whole raster, so no isolation argument is needed."""
    h, w = draw(st.integers(1, 5)), draw(st.integers(1, 5))
    gi, gj = draw(st.integers(1, 4)), draw(st.integers(1, 4))
    metric = draw(st.sampled_from(["EUCLIDEAN", "MANHATTAN"]))
    sy, sx = draw(st.sampled_from([1, 0.5, 2, 3])), draw(st.sampled_from([1, 0.5, 2, 0.25]))
    gap = draw(st.sampled_from([7.0, 50.0, 1000.0]))
    ys = [I * (gap + h * sy) + i * sy for I in range(gi) for i in range(h)]
    xs = [J * (gap + w * sx) + j * sx for J in range(gj) for j in range(w)]
    if draw(st.booleans()):
        ys = ys[::-1]
    dtype = draw(st.sampled_from(["float64", "float32", "int32"]))
    isf = dtype.startswith("float")
    H, W = gi * h, gj * w
    vals = [v * (0.5 if isf else 1) for v in range(1, 30)]
    dens = draw(st.sampled_from([2, 5, 12]))
    elem = st.one_of(*([st.just(0)] * dens + ([st.sampled_from(["nan", "inf"])] if isf else []) + [st.sampled_from(vals)]))
    flat = draw(st.lists(elem, min_size=H * W, max_size=H * W))
    mdmode = draw(st.sampled_from(["inf", "k", "k", "gap"]))
    if mdmode == "inf":
        md = None
    elif mdmode == "k":
        md = draw(st.integers(1, 4)) * sx * draw(st.sampled_from([0.999, 1.0, 1.001, 1.42]))
    else:
        md = gap * draw(st.sampled_from([0.9, 1.0, 1.1]))
    present = [v for v in dict.fromkeys(flat) if not isinstance(v, str) and v != 0]
    tv = [] if (not present or draw(st.booleans())) else present[:draw(st.integers(1, 3))]
    return {"sub": "rand", "raster": {"dtype": dtype, "data": [flat[i * W:(i + 1) * W] for i in range(H)]}, "y": ys, "x": xs,
            "metric": metric, "target_values": tv, "max_distance": md}


@st.composite
def gc_cases(draw):
    """GREAT_CIRCLE on wide lon/lat grids (spans beyond 180 degrees of longitude, high latitudes, the antimeridian and the poles as
    coordinates), few targets, mostly unbounded max_distance: the corner-to-corner distance is NOT the largest distance there."""
    h, w = draw(st.integers(1, 7)), draw(st.integers(2, 12))
    span_x = draw(st.sampled_from([360.0, 340.0, 300.0, 200.0, 170.0, 40.0]))
    span_y = draw(st.sampled_from([180.0, 160.0, 60.0, 10.0]))
    x0 = -span_x / 2 + draw(st.sampled_from([0.0, 0.0, 5.0])) * (1 if span_x < 350 else 0)
    y0 = draw(st.sampled_from([-span_y / 2, max(-90.0, 90.0 - span_y)]))
    x = {"start": x0, "step": span_x / (w - 1), "n": w, "desc": draw(st.booleans())}
    y = {"start": y0, "step": (span_y / (h - 1)) if h > 1 else 1.0, "n": h, "desc": draw(st.booleans())}
    nt = draw(st.integers(1, 3))
    flat = [0.0] * (h * w)
    for _ in range(nt):
        flat[draw(st.integers(0, h * w - 1))] = draw(st.sampled_from([1.0, 2.5, 4.0, -3.0]))
    md = draw(st.sampled_from([None, None, None, 1e12, 2.5e6]))
    return {"sub": "rand", "raster": {"dtype": "float64", "data": [flat[i * w:(i + 1) * w] for i in range(h)]}, "y": y, "x": x,
            "metric": "GREAT_CIRCLE", "target_values": [], "max_distance": md, "gc_global": True}


def family_blocks(metric, max_cells, block=16384, md=None):
    out = []
    for (h, w) in FAMILY[metric]:
        for (hh, ww) in {(h, w), (w, h)}:
            if hh * ww > max_cells:
                continue
            total = 1 << (hh * ww)
            for lo in range(0, total, block):
                out.append({"sub": "tiles", "h": hh, "w": ww, "lo": lo, "hi": min(total, lo + block), "metric": metric, "md": md})
    return sorted(out, key=lambda c: (c["h"] * c["w"], c["h"], c["lo"]))


def shards(tier):
    out = []
    nr, per = (4, 12) if tier == "quick" else (10, 130)
    for i in range(nr):
        out.append(("rand#%d" % i, lambda ctx: drive_hypothesis(ctx, body_rand, rand_cases(10 if tier == "thorough" else 8), per, shrink=(tier == "thorough"))))
    blocks = []
    if tier == "quick":
        # quick: only the larger shapes (>= 9 cells; each batched call costs ~1.3 s of closure JIT whatever the tile count)
        big = lambda bs: [b for b in bs if b["h"] * b["w"] >= 9]  # noqa
        blocks += big(family_blocks("EUCLIDEAN", 12)) + big(family_blocks("MANHATTAN", 12)) + [b for b in family_blocks("MANHATTAN", 16) if (b["h"], b["w"]) == (4, 4)]
        blocks += [b for b in family_blocks("EUCLIDEAN", 12, md=1.5) + family_blocks("MANHATTAN", 12, md=2.0) if b["h"] * b["w"] >= 10 and min(b["h"], b["w"]) >= 2]
    else:
        blocks += family_blocks("EUCLIDEAN", 18) + family_blocks("MANHATTAN", 18)
        for md in (1.0, 1.5, 2.3, 3.0):
            blocks += family_blocks("EUCLIDEAN", 15, md=md) + family_blocks("MANHATTAN", 15, md=md)
    for i in range(2 if tier == "quick" else 3):
        out.append(("gc#%d" % i, lambda ctx: drive_hypothesis(ctx, body_rand, gc_cases(), 12 if tier == "quick" else 100, shrink=(tier == "thorough"))))
    nm, perm = (3, 12) if tier == "quick" else (4, 130)
    for i in range(nm):
        out.append(("multi#%d" % i, lambda ctx: drive_hypothesis(ctx, body_rand, multi_cases(), perm, shrink=(tier == "thorough"))))
    ns = 6 if tier == "quick" else 16
    for k in range(ns):
        mine = blocks[k::ns]
        out.append(("family#%d" % k, lambda ctx, mine=mine, k=k: drive_enum(
            ctx, body_tiles, mine, space="target layouts (tile-batched) blocks %d..(stride %d): %s" % (k, ns, sorted({(b["metric"][:4], b["h"], b["w"]) for b in mine})),
            size=sum(b["hi"] - max(b["lo"], 1) for b in mine))))
    singles = [{"sub": "single", "h": h, "w": w, "metric": m, "sy": sy, "sx": sx}
               for (h, w) in ([(9, 11), (1, 12), (12, 1), (5, 5)] if tier == "quick" else [(12, 12), (9, 11), (1, 16), (16, 1), (7, 3), (5, 5)])
               for m in ("EUCLIDEAN", "MANHATTAN") for (sy, sx) in ((1.0, 1.0), (2.0, 0.5))]
    out.append(("single#0", lambda ctx: drive_enum(ctx, body_single, singles, space="single-target positions", size=len(singles))))
    return out


LEVEL_TEXT = ("Randomised validity search on all three outputs (every non-NaN distance must be the float64 distance to a real target that allocation and "
              "direction agree on, never under the true nearest, never over max_distance) plus bounded-exhaustive exactness: every target layout of the "
              "measured exact family (H*W <= 12 quick, <= 18 thorough, ~2.3 M layouts) and every single-target position on grids up to 12x12.")
LEVEL_NOTE = ("Sampled outside the enumerated family; tile batching is an optimisation whose verdicts are always confirmed on the isolated tile; float32 storage "
              "tolerance 2e-6 relative, bearings 1e-3 degrees; a cell within max_distance that stays NaN is not asserted (statement does not demand it).")
TECHNIQUE = "property-based testing with a validity-predicate oracle + exhaustive target-layout enumeration against brute-force nearest distances"
