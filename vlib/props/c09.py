"""C09 - focal results are statistics of exactly the cells under the kernel (NumPy backend).

Sub-properties (case["sub"]):
  stats     focal_stats (and apply's default reducer) vs brute-force window statistics, all seven built-ins
  reducer   focal.apply with position-sensitive user reducers (numba-jitted), harness applies the same Python
            function to the NaN-padded window the contract describes
  mean      focal.mean = 3x3 clipped nan-mean iterated `passes` times, excluded values copied through
  conv      convolution_2d = kernel-weighted sum over the FULL window, NaN where it leaves the raster / holds a NaN
  hotspots  classes from the z-score of the neighbourhood mean, strict thresholds, negation antisymmetry,
            ZeroDivisionError on zero global std
  reject    even-shaped / non-ndarray kernels (outside the quantifier): observed only - today they raise ValueError
"""
import hashlib

import numpy as np
from hypothesis import strategies as st

from .. import strategies as S
from ..core import R, dec_arr, dec_list, drive_enum, drive_hypothesis
from ..oracles import focal as F

PROP = "C09"
RULE = ("Generator: rasters 1..12 a side (thorough 16) over float64/float32/int16/int32/int64/uint8 with palettes small ints, signed, "
        "halves, non-float32-representable, free floats and all-distinct permutations, NaN cells at densities none/one/some/half/most; "
        "0/1 kernels of odd shape 1..11 (each side up to the raster side rounded up to odd, at least 3), float64 and int64, modes random density / "
        "forced asymmetric / single 1 / two 1s / all 1 / all 0; every one of the 512 0/1 3x3 kernels on 5 (quick) / 50 (thorough) fixed rasters; "
        "reducers: 7 built-ins (any subset/order), w[0,0]-else--1, count of NaN positions, nansum(w*P) with P = row-major position index + 1; "
        "focal.mean with passes 0..3 and excludes default/[nan]/[nan,0]/[3]/[nan,-1,2]; weighted float/int kernels for convolution_2d (also larger "
        "than the raster); hotspots with 0/1 and positive weighted kernels on spiky/blocky rasters, constant rasters for the zero-std error; even-shaped / non-ndarray kernels as observation only (never judged). "
        "About 1 in 16 stats/reducer kernels carries an entry other than 0/1: those lie outside the quantifier, are never judged and only record "
        "(label non01_observed=...) which entries the implementation takes as the window. "
        "Oracle: shift-and-stack brute force in float64 on the ORIGINAL data (vlib/oracles/focal.py); accepted: any single- or double-precision evaluation "
        "(one float32 rounding per input value and of the result, any summation order); min/max/corner reducer: the input value or its float32 rounding. "
        "Non-trivial: stats/reducer - kernel with >= 2 ones that differs from all its flips/transposes/turns, or a NaN cell under a 1-entry of some window; "
        "mean - passes >= 1 and some non-excluded cell with a differing valid neighbour; conv - some output cell whose window stays inside and the kernel is "
        "asymmetric with >= 2 non-zero weights or a NaN lies in a window; hotspots - at least one decidable non-zero class; reject - none (observation). "
        "Distinct by SHA-1 of the case (random) or enumeration index.")
ASSUMPTIONS = ["NumPy backend only (Dask agreement is C01)",
               "kernels are odd-shaped ndarrays of 0/1 entries; even-shaped or non-ndarray kernels and kernels with other entries are outside "
               "the quantifier and only observed - so reading membership as `kernel != 0` instead of `kernel == 1` is equivalent under the statement",
               "raster magnitudes <= 1e6, no +-inf cells; working precision, window dtype and result dtype are NOT part of the statement: results are accepted "
               "under a forward error bound covering single or double precision in any evaluation order",
               "focal.mean excludes are non-empty homogeneous float lists; excluded cells are compared bit for bit, all others under a float64 forward bound",
               "hotspots: kernel sum > 0, at least one finite cell; the class is decided from the float64 z-score; cells where the z-score of the float32-rounded "
               "data falls in another class, or either lies within the stated band of 1.65/1.96/2.58, are skipped and counted; a NaN lying only under zero "
               "weights may give 0 (today's behaviour) or the class of the NaN-free weighted mean",
               "empty window => NaN, except sum => 0 (NumPy nan-function semantics)"]
BUDGET_S = {"quick": 170, "thorough": 1100}

EXCLUDES = {"default": None, "nan": ["nan"], "nan0": ["nan", 0.0], "three": [3.0], "nan_m1_2": ["nan", -1.0, 2.0]}
HOT_SET = {0, 90, 95, 99, -90, -95, -99}

# ---------------------------------------------------------------- user reducers (plain Python; jitted lazily, once per worker)


def red_corner(w):
    v = w[0, 0]
    if np.isnan(v):
        return -1.0
    return v * 1.0


def red_nancount(w):
    return np.isnan(w).sum()


def red_wsum(w):
    p = (np.arange(w.size) + 1.0).reshape(w.shape)
    return np.nansum(w * p)


REDUCERS = {"corner": red_corner, "nancount": red_nancount, "wsum": red_wsum}
_JIT = {}


def _jitted(name):
    if name not in _JIT:
        from xrspatial.utils import ngjit
        _JIT[name] = ngjit(REDUCERS[name])
    return _JIT[name]


# ---------------------------------------------------------------- helpers

def _kernel_labels(r, kern, H, W):
    kh, kw = kern.shape
    ones = int((kern == 1).sum())
    asym = F.kernel_asym(kern == 1)
    r.label("kernel=%s" % ("square" if kh == kw else "nonsquare"), "kdtype=%s" % kern.dtype,
            "ksize=%d" % max(kh, kw), "ones=%s" % (ones if ones < 3 else "3+" if ones < kh * kw else "all"))
    if asym and ones >= 2:
        r.label("kernel_asym")
    if kh > H or kw > W:
        r.label("kernel_exceeds_raster")
    if np.any((kern != 0) & (kern != 1)):
        r.label("kernel_non01_entries")
    return ones, asym


def _raster_labels(r, a):
    H, W = a.shape
    r.label("dtype=%s" % a.dtype)
    if H == 1 or W == 1:
        r.label("raster_1xN")
    if a.dtype.kind == "f" and np.isnan(a).any():
        r.label("raster_has_nan")


def _where(y, x, info, H, W, kshape):
    kh, kw = kshape
    if info["count"][y, x] == 0:
        return "empty_window"
    if info["nan_under"][y, x] > 0:
        return "nan_in_window"
    hr, hc = kh // 2, kw // 2
    if y - hr < 0 or y + hr >= H or x - hc < 0 or x + hc >= W:
        return "edge_clipped"
    return "interior"


_ORDER = {"interior": 0, "edge_clipped": 1, "nan_in_window": 2, "empty_window": 3}


def _judge_layer(r, prefix, layer, ref, tol, info, a, kern, alt=None):
    """Compare one output layer with the oracle; one failure per layer, named by the simplest kind of cell that is wrong.
    `alt`: second acceptable exact value per cell (the float32 rounding of a reference that is an input value)."""
    H, W = a.shape
    layer = np.asarray(layer, dtype=np.float64)
    if layer.shape != ref.shape:
        r.fail(prefix + ".shape", "shape %s, expected %s" % (layer.shape, ref.shape))
        return
    bad = F.close(layer, ref, tol, alt)
    if not bad.any():
        return
    cells = [(_ORDER[_where(y, x, info, H, W, kern.shape)], y, x) for y, x in np.argwhere(bad)]
    o, y, x = min(cells)
    where = [k for k, v in _ORDER.items() if v == o][0]
    r.fail("%s.%s" % (prefix, where),
           "cell (%d,%d): got %r, expected %r (tol %.3g%s); %d/%d cells wrong; raster %s %s kernel %s" % (
               y, x, float(layer[y, x]), float(ref[y, x]), float(tol[y, x]),
               "" if alt is None else ", or exactly %r" % float(alt[y, x]), int(bad.sum()), bad.size,
               a.dtype, a.tolist(), kern.tolist()))


def _has_non01(kern):
    return bool(np.any((kern != 0) & (kern != 1)))


def _reducer_ref(a, kern01, name):
    """Reference of a user reducer: the plain-Python function applied to the window the contract describes."""
    H, W = a.shape
    py = REDUCERS[name]
    ref = np.empty((H, W))
    tol = np.zeros((H, W))
    kh, kw = kern01.shape
    pat = (np.arange(kh * kw) + 1.0).reshape(kh, kw)
    for y, x, w in F.reducer_windows(a, kern01):
        ref[y, x] = float(py(w))
        if name == "wsum":
            n = int((~np.isnan(w)).sum())
            tol[y, x] = ((max(2.0, n / 2.0) + 1.0) * F.EPS32 * float(np.nansum(np.abs(w * pat)))
                         + F.EPS32 * abs(ref[y, x]) + F.TINY32)
    # corner returns an input value (or -1): the value itself or its float32 rounding, nothing else
    alt = F.f32(ref) if name == "corner" else None
    return ref, tol, alt


def _observe_non01(r, kern, out, judge):
    """Kernels with entries other than 0/1 are OUTSIDE the property's quantifier ("all 0/1 kernels"): nothing is demanded.
    The case only records which reading the implementation takes: window = entries equal to 1, or entries different from 0."""
    r.nt = False
    if out is None:
        r.label("non01_observed=raised")
        return r
    eq1 = judge((kern == 1).astype(float))
    ne0 = judge((kern != 0).astype(float))
    r.label("non01_observed=%s" % ("both" if eq1 and ne0 else "eq1" if eq1 else "ne0" if ne0 else "neither"))
    return r


def _nontrivial(ones, asym, info):
    return bool((ones >= 2 and asym) or info["nan_under"].any())


# ---------------------------------------------------------------- bodies

def body_stats(case, ctx):
    from xrspatial.focal import apply, focal_stats
    ras = S.mk_da(case["raster"])
    a = np.array(ras.data)
    kern = dec_arr(case["kernel"])
    H, W = a.shape
    names = case.get("stats")
    r = R()
    ones, asym = _kernel_labels(r, kern, H, W)
    _raster_labels(r, a)
    if _has_non01(kern):
        try:
            o = np.asarray(focal_stats(ras, kern, stats_funcs=["mean"]).values)[0]
        except Exception:  # noqa: outside the quantifier, observation only
            o = None

        def judge(k01):
            rf, tl, _ = F.window_stats(a, k01)
            return o.shape == (H, W) and not F.close(o, rf["mean"], tl["mean"]).any()
        return _observe_non01(r, kern, o, judge)
    ref, tol, info = F.window_stats(a, kern)
    r.nt = _nontrivial(ones, asym, info)
    if info["nan_under"].any():
        r.label("nan_in_window")
    if (info["count"] == 0).any():
        r.label("empty_window_cell")
    r.label("stats=%s" % ("default7" if names is None else "subset%d" % len(names)))
    out = focal_stats(ras, kern) if names is None else focal_stats(ras, kern, stats_funcs=list(names))
    want = list(names) if names is not None else list(F.STATS)
    if out.ndim != 3 or out.dims[0] != "stats" or out.shape != (len(want), H, W):
        return r.fail("stats.layout", "dims %s shape %s, expected ('stats', y, x) %s" % (out.dims, out.shape, (len(want), H, W)))
    got_names = [str(v) for v in out["stats"].values]
    if got_names != want:
        r.fail("stats.labels", "stats coordinate %s, requested %s" % (got_names, want))
    vals = np.asarray(out.values)
    for i, s in enumerate(want):
        _judge_layer(r, "stats.%s" % s, vals[i], ref[s], tol[s], info, a, kern, alt=info["alt"].get(s))
    if case.get("apply_default"):
        o2 = apply(ras, kern)
        _judge_layer(r, "apply.default_mean", o2.values, ref["mean"], tol["mean"], info, a, kern)
    return r


def body_reducer(case, ctx):
    from xrspatial.focal import apply
    name = case["reducer"]
    ras = S.mk_da(case["raster"])
    a = np.array(ras.data)
    kern = dec_arr(case["kernel"])
    H, W = a.shape
    r = R()
    ones, asym = _kernel_labels(r, kern, H, W)
    _raster_labels(r, a)
    r.label("reducer=%s" % name)
    if _has_non01(kern):
        try:
            o = np.asarray(apply(ras, kern, _jitted(name)).values, dtype=np.float64)
        except Exception:  # noqa: outside the quantifier, observation only
            o = None

        def judge(k01):
            rf, tl, al = _reducer_ref(a, k01, name)
            return o.shape == (H, W) and not F.close(o, rf, tl, al).any()
        return _observe_non01(r, kern, o, judge)
    _, _, info = F.window_stats(a, kern)
    r.nt = _nontrivial(ones, asym, info)
    if info["nan_under"].any():
        r.label("nan_in_window")
    ref, tol, alt = _reducer_ref(a, kern, name)
    out = apply(ras, kern, _jitted(name))
    if out.shape != (H, W):
        return r.fail("apply.%s.shape" % name, "shape %s" % (out.shape,))
    _judge_layer(r, "apply.%s" % name, out.values, ref, tol, info, a, kern, alt=alt)
    return r


def body_mean(case, ctx):
    from xrspatial.focal import mean
    ras = S.mk_da(case["raster"])
    a = np.array(ras.data)
    H, W = a.shape
    passes = case["passes"]
    exname = case["excl"]
    ex = [float("nan")] if EXCLUDES[exname] is None else dec_list(EXCLUDES[exname])
    r = R()
    _raster_labels(r, a)
    r.label("passes=%d" % passes, "excl=%s" % exname)
    # the statement does not say in which precision the mean is formed: a float32 raster may be averaged in its own precision
    single = a.dtype == np.float32
    ref, tol, amb = F.mean_passes(a, passes, ex, band=1e-5 if single else 1e-9)
    x0 = a.astype(np.float64)
    exm = np.zeros((H, W), bool)
    for e in ex:
        exm |= np.isnan(x0) if np.isnan(e) else (x0 == e)
    if exm.any():
        r.label("has_excluded_cell")
    if exm.any() and not exm.all() and any(not np.isnan(e) for e in ex) and (exm & ~np.isnan(x0)).any():
        r.label("has_excluded_finite_cell")
    if (np.isnan(x0) & ~exm).any():
        r.label("nan_cell_not_excluded")
    first, _, _ = F.mean_passes(a, 1, ex)
    with np.errstate(invalid="ignore"):
        changed = ~((first == x0) | (np.isnan(first) & np.isnan(x0)))
    r.nt = bool(passes >= 1 and changed.any())
    if amb:
        r.amb += 1
        return r
    if EXCLUDES[exname] is None:
        out = mean(ras, passes=passes)
    else:
        out = mean(ras, passes=passes, excludes=list(ex))
    o = np.asarray(out.values, dtype=np.float64)
    if o.shape != (H, W):
        return r.fail("mean.shape", "shape %s" % (o.shape,))
    if single or out.dtype == np.float32:
        fin_ = x0[np.isfinite(x0)]
        tol = np.maximum(tol, 64 * float(np.finfo(np.float32).eps) * (float(np.abs(fin_).max()) if fin_.size else 0.0))
        r.label("mean:single_precision_bound")
    # cells excluded from the start are "passed through untouched": bit for bit; all others under the float64 forward bound
    with np.errstate(invalid="ignore"):
        same = (o == x0) | (np.isnan(o) & np.isnan(x0))
    bad = (F.close(o, ref, tol) & ~exm) | (exm & ~same)
    if bad.any():
        y, x = [int(v) for v in np.argwhere(bad)[0]]
        if passes == 0:
            b = "mean.passes0_not_identity"
        elif (bad & exm).any():
            y, x = [int(v) for v in np.argwhere(bad & exm)[0]]
            b = "mean.excluded_cell_changed"
        elif passes == 1:
            b = "mean.value_single_pass"
        else:
            b = "mean.value_multi_pass"
        r.fail(b, "cell (%d,%d): got %r, expected %r; passes=%d excludes=%s raster %s %s" % (
            y, x, float(o[y, x]), float(ref[y, x]), passes, ex, a.dtype, a.tolist()))
    return r


def body_conv(case, ctx):
    from xrspatial.convolution import convolution_2d
    ras = S.mk_da(case["raster"])
    a = np.array(ras.data)
    kern = dec_arr(case["kernel"])
    H, W = a.shape
    kh, kw = kern.shape
    r = R()
    _raster_labels(r, a)
    r.label("kernel=%s" % ("square" if kh == kw else "nonsquare"), "kdtype=%s" % kern.dtype, "ksize=%d" % max(kh, kw))
    ref, tol, leaves, nanwin = F.conv_full(a, kern)
    nz = int((kern != 0).sum())
    asym = F.kernel_asym(kern)
    if asym and nz >= 2:
        r.label("kernel_asym")
    if kh > H or kw > W:
        r.label("kernel_exceeds_raster")
    if nanwin.any():
        r.label("nan_in_window")
    if (kern == 0).any():
        r.label("kernel_has_zero_weight")
    inner = ~leaves
    r.nt = bool(inner.any() and ((asym and nz >= 2) or nanwin.any()))
    out = convolution_2d(ras, kern)
    o = np.asarray(out.values, dtype=np.float64)
    if o.shape != (H, W):
        return r.fail("conv.shape", "shape %s" % (o.shape,))
    on = np.isnan(o)
    msg = "raster %s %s kernel %s" % (a.dtype, a.tolist(), kern.tolist())
    if (leaves & ~on).any():
        y, x = np.argwhere(leaves & ~on)[0]
        r.fail("conv.border_not_nan", "cell (%d,%d) = %r although the %dx%d window leaves the raster; %s" % (y, x, float(o[y, x]), kh, kw, msg))
    if (nanwin & ~on).any():
        y, x = np.argwhere(nanwin & ~on)[0]
        r.fail("conv.nan_in_window_not_nan", "cell (%d,%d) = %r although a NaN lies in its window; %s" % (y, x, float(o[y, x]), msg))
    ok = ~np.isnan(ref)
    if (ok & on).any():
        y, x = np.argwhere(ok & on)[0]
        r.fail("conv.unexpected_nan", "cell (%d,%d) is NaN, expected %r; %s" % (y, x, float(ref[y, x]), msg))
    with np.errstate(invalid="ignore"):
        bad = ok & ~on & ~(np.abs(o - ref) <= tol)
    if bad.any():
        y, x = np.argwhere(bad)[0]
        r.fail("conv.value", "cell (%d,%d): got %r, expected %r (tol %.3g); %s" % (y, x, float(o[y, x]), float(ref[y, x]), float(tol[y, x]), msg))
    return r


def body_hotspots(case, ctx):
    from xrspatial.focal import hotspots
    ras = S.mk_da(case["raster"])
    a = np.array(ras.data)
    kern = dec_arr(case["kernel"])
    H, W = a.shape
    r = R()
    _raster_labels(r, a)
    weighted = bool(np.any((kern != 0) & (kern != 1)))
    r.label("kernel=%s" % ("weighted" if weighted else "01"), "ksize=%d" % max(kern.shape))
    h = F.hotspots_ref(a, kern)
    msg = "raster %s %s kernel %s" % (a.dtype, a.tolist(), kern.tolist())
    if h["const"]:
        r.label("constant_raster")
        if not h["exact_const"]:
            r.amb += 1          # the mean of n equal values need not reproduce the value (or the raster is constant only after float32 rounding): std==0 undecidable
            return r
        r.nt = True
        try:
            out = hotspots(ras, kern)
        except ZeroDivisionError:
            return r
        return r.fail("hotspots.zero_std_no_error", "no ZeroDivisionError for a raster whose valid cells all equal %r; got %s; %s" % (
            float(h["mean"]), np.asarray(out.values).tolist(), msg))
    out = hotspots(ras, kern)
    o = np.asarray(out.values)
    if o.shape != (H, W):
        return r.fail("hotspots.shape", "shape %s" % (o.shape,))
    vals = set(int(v) for v in np.unique(o))
    if not vals <= HOT_SET:
        r.fail("hotspots.value_outside_set", "values %s; %s" % (sorted(vals - HOT_SET), msg))
    z, cls, judge = h["z"], h["cls"], h["decidable"]
    undefined, soft = h["undefined"], h["soft"]
    # cells not judged: float64 / float32-data z on different sides of, or within the band of, a threshold
    r.amb += int((~judge & ~undefined).sum()) + int((soft & ~h["decidable_soft"]).sum())
    levels = set(int(abs(v)) for v in np.unique(cls[judge])) if judge.any() else set()
    for lv in (90, 95, 99):
        if lv in levels:
            r.label("class_%d" % lv)
    if (cls[judge] > 0).any():
        r.label("hot")
    if (cls[judge] < 0).any():
        r.label("cold")
    if soft.any():
        r.label("nan_only_under_zero_weight")
    r.nt = bool(judge.any() and (cls[judge] != 0).any())
    hard = undefined & ~soft
    if (hard & (o != 0)).any():
        y, x = np.argwhere(hard & (o != 0))[0]
        r.fail("hotspots.undefined_z_nonzero", "cell (%d,%d) = %d but its neighbourhood mean is undefined (window leaves raster / NaN under a non-zero weight); %s" % (y, x, int(o[y, x]), msg))
    # a NaN lying only under zero weights: 0 (0 * NaN is NaN: today's behaviour) and the class of the NaN-free weighted mean are both accepted
    sbad = h["decidable_soft"] & (o != 0) & (o != h["cls_soft"])
    if sbad.any():
        y, x = np.argwhere(sbad)[0]
        r.fail("hotspots.nan_under_zero_weight", "cell (%d,%d) = %d; accepted: 0 or %d; %s" % (y, x, int(o[y, x]), int(h["cls_soft"][y, x]), msg))
    bad = judge & (o != cls)
    if bad.any():
        y, x = np.argwhere(bad)[0]
        g, e = int(o[y, x]), int(cls[y, x])
        if g != 0 and e != 0 and (g > 0) != (e > 0):
            b = "hotspots.class.sign"
        elif abs(g) > abs(e):
            b = "hotspots.class.overstated"
        else:
            b = "hotspots.class.understated"
        r.fail(b, "cell (%d,%d): got %d, expected %d (z=%.6f, band %.3g, global mean %.6g std %.6g); %s" % (
            y, x, g, e, float(z[y, x]), h["band"], h["mean"], h["std"], msg))
    # negation: same kernel, negated raster => negated classes, exactly
    if a.dtype.kind in "fi":
        neg = ras.copy(data=-a)
        on = np.asarray(hotspots(neg, kern).values)
        if not np.array_equal(on.astype(int), -o.astype(int)):
            y, x = np.argwhere(on.astype(int) != -o.astype(int))[0]
            r.fail("hotspots.negation", "cell (%d,%d): hotspots(-x) = %d, hotspots(x) = %d; %s" % (y, x, int(on[y, x]), int(o[y, x]), msg))
    return r


def _bad_kernel(spec):
    kind, shape = spec["kind"], spec["shape"]
    k = np.ones(tuple(shape), dtype=spec.get("dtype", "float64"))
    if kind == "list":
        return k.tolist()
    if kind == "tuple":
        return tuple(tuple(row) for row in k.tolist())
    return k


def body_reject(case, ctx):
    from xrspatial.convolution import custom_kernel
    from xrspatial.focal import apply, focal_stats
    spec = case["kernel"]
    kern = _bad_kernel(spec)
    fn = case["fn"]
    ras = S.mk_da({"dtype": "float64", "data": [[1.0, 2.0, 3.0, 4.0], [5.0, 6.0, 7.0, 8.0], [9.0, 1.0, 2.0, 3.0], [0.0, 4.0, 2.0, 1.0]]})
    r = R(nt=False)                        # observation only: nothing is decided by these cases
    r.label("reject=%s" % spec["kind"], "fn=%s" % fn)
    call = {"custom_kernel": lambda: custom_kernel(kern),
            "focal_stats": lambda: focal_stats(ras, kern),
            "apply": lambda: apply(ras, kern)}[fn]
    if spec["kind"] == "odd":
        res = call()                       # positive control: a valid kernel is accepted (and returned unchanged by custom_kernel)
        return r
    # The statement quantifies over odd ndarray kernels only; whether other kernels are rejected is not part of it.
    # Observed (label), never failed: today they raise ValueError.
    try:
        res = call()
        r.label("observed:%s_kernel_accepted" % spec["kind"])
    except ValueError:
        r.label("observed:%s_kernel_rejected" % spec["kind"])
    except Exception as e:  # noqa: outside the quantifier - any other outcome is recorded, not failed
        r.label("observed:%s_kernel_raised_%s" % (spec["kind"], type(e).__name__))
    return r


BODIES = {"stats": body_stats, "reducer": body_reducer, "mean": body_mean, "conv": body_conv,
          "hotspots": body_hotspots, "reject": body_reject}


# ---------------------------------------------------------------- strategies

ODD = [1, 3, 5, 7, 9, 11]
KSIZE_POOL = [3, 3, 5, 5, 1, 7, 9, 11]        # sampling weights: 3 and 5 twice as likely as the rest
F_KINDS = ["smallint", "signed", "halves", "nonf32", "free", "perm", "perm"]
I_KINDS = ["smallint", "signed", "bigint", "perm", "perm"]
U_KINDS = ["smallint", "perm"]


def _sides(max_side):
    return st.one_of(st.integers(1, min(6, max_side)), st.integers(3, max_side))


@st.composite
def raster_spec(draw, dtype, h, w, kinds=None, nan=True, inf=False):
    """JSON raster spec; values by construction inside the dtype's range, |v| <= 1e6."""
    n = h * w
    isf = dtype.startswith("float")
    uns = dtype.startswith("uint")
    kind = draw(st.sampled_from(kinds or (F_KINDS if isf else U_KINDS if uns else I_KINDS)))
    if kind == "perm":
        perm = draw(st.permutations(list(range(n))))
        if isf:
            scale, off = draw(st.sampled_from([(1.0, 0), (0.5, n // 2), (0.1, 0), (1.0, n // 2), (37.3, 3)]))
            flat = [(p - off) * scale for p in perm]
        elif uns:
            flat = list(perm)
        else:
            off = draw(st.sampled_from([0, n // 2])) if dtype != "int8" else n // 2
            flat = [p - off for p in perm]
    else:
        if kind == "free":
            vals = draw(st.lists(st.floats(-1e4, 1e4, allow_nan=False, allow_infinity=False, width=32), min_size=3, max_size=10))
        else:
            vals = {"smallint": S.PAL_SMALLINT, "signed": S.PAL_SIGNED, "halves": S.PAL_HALVES, "nonf32": S.PAL_NONF32,
                    "bigint": [0, 1, 100, 255, 1000, 30000] + ([100000, -70000] if dtype in ("int32", "int64") else [-5])}[kind]
        flat = draw(st.lists(st.sampled_from(list(vals)), min_size=n, max_size=n))
    if isf and nan:
        mode = draw(st.sampled_from(["none", "none", "one", "some", "half", "most"]))
        if mode == "one":
            flat[draw(st.integers(0, n - 1))] = "nan"
        elif mode != "none":
            cut = {"some": 1, "half": 4, "most": 7}[mode]
            marks = draw(st.lists(st.integers(0, 7), min_size=n, max_size=n))
            flat = ["nan" if m < cut else v for v, m in zip(flat, marks)]
    if isf and inf:
        for _ in range(draw(st.integers(1, 3))):     # a few +-inf cells: values like any other for max / min / range
            flat[draw(st.integers(0, n - 1))] = draw(st.sampled_from(["inf", "-inf"]))
    return {"dtype": dtype, "data": [flat[i * w:(i + 1) * w] for i in range(h)]}


def _ksizes(n, cap):
    top = max(3, n if n % 2 else n + 1)
    return [s for s in KSIZE_POOL if s <= min(top, cap)]


@st.composite
def kernel01(draw, H, W, kdtype, cap=11, non01=True):
    """0/1 kernel of odd shape (each side up to the raster side rounded up to odd, at least 3), built by construction per mode."""
    kh = draw(st.sampled_from(_ksizes(H, cap)))
    kw = draw(st.sampled_from(_ksizes(W, cap)))
    n = kh * kw
    mode = draw(st.sampled_from(["rand", "rand", "rand", "asym", "asym", "asym", "asym", "two", "two", "single", "single", "all", "all",
                                 "zero", "rand", "asym"] if n > 1 else ["all", "all", "all", "zero"]))
    if mode == "all":
        k = np.ones((kh, kw), int)
    elif mode == "zero":
        k = np.zeros((kh, kw), int)
    elif mode == "single":
        k = np.zeros(n, int)
        k[draw(st.integers(0, n - 1))] = 1
        k = k.reshape(kh, kw)
    elif mode == "two":
        k = np.zeros(n, int)
        i = draw(st.integers(0, n - 1))
        j = draw(st.integers(0, n - 2))
        k[i] = 1
        k[j if j < i else j + 1] = 1
        k = k.reshape(kh, kw)
    else:
        cut = draw(st.sampled_from([2, 4, 6]))
        bits = draw(st.lists(st.integers(0, 7), min_size=n, max_size=n))
        k = np.array([1 if b < cut else 0 for b in bits]).reshape(kh, kw)
        if mode == "asym":
            k[0, 0] = 1
            if kw > 1:
                k[0, kw - 1] = 0
            if kh > 1:
                k[kh - 1, 0] = 0
            if kh > 1 and kw > 1:
                k[kh - 1, kw - 1] = 0
            if kh == kw and kh > 1:
                k[0, 1] = 1
                k[1, 0] = 0
            if k.sum() < 2:
                k[kh // 2, kw // 2] = 1
    k = k.astype(kdtype)
    if non01 and n > 1 and draw(st.sampled_from([False] * 15 + [True])):      # observation-only cases, outside the quantifier
        others = [2.0, 0.5, -1.0, 3.0] if kdtype.startswith("float") else [2, -1, 3]
        m = draw(st.integers(1, min(3, n)))
        for _ in range(m):
            pos = draw(st.integers(0, n - 1))
            k[pos // kw, pos % kw] = draw(st.sampled_from(others))
    return {"dtype": kdtype, "data": k.tolist()}


@st.composite
def stats_cases(draw, combos, max_side):
    h = draw(_sides(max_side))
    w = draw(_sides(max_side))
    dtype, kdtype = draw(st.sampled_from(combos))
    with_inf = dtype.startswith("float") and draw(st.integers(0, 7)) == 0
    ras = draw(raster_spec(dtype, h, w, inf=with_inf))
    kern = draw(kernel01(h, w, kdtype))
    case = {"sub": "stats", "raster": ras, "kernel": kern}
    if with_inf:
        # statistics that stay defined with infinite cells (sums of +inf and -inf are not)
        case["stats"] = draw(st.lists(st.sampled_from(["max", "min", "range"]), min_size=1, max_size=3, unique=True))
        return case
    if draw(st.booleans()):
        case["stats"] = draw(st.lists(st.sampled_from(F.STATS), min_size=1, max_size=7, unique=True))
    if draw(st.integers(0, 3)) == 0:
        case["apply_default"] = True
    return case


@st.composite
def reducer_cases(draw, combos, max_side):
    h = draw(_sides(max_side))
    w = draw(_sides(max_side))
    dtype, kdtype = draw(st.sampled_from(combos))
    ras = draw(raster_spec(dtype, h, w))
    kern = draw(kernel01(h, w, kdtype))
    return {"sub": "reducer", "reducer": sorted(REDUCERS)[draw(st.integers(0, 299)) % 3], "raster": ras, "kernel": kern}


@st.composite
def mean_cases(draw, dtypes, max_side):
    h = draw(_sides(max_side))
    w = draw(_sides(max_side))
    dtype = draw(st.sampled_from(dtypes))
    isf = dtype.startswith("float")
    # palettes that contain the excluded values (0, 3, -1, 2) often
    kinds = (["signed", "signed", "smallint", "halves", "nonf32", "free", "perm"] if isf else
             ["smallint", "perm"] if dtype.startswith("uint") else ["signed", "signed", "smallint", "perm"])
    ras = draw(raster_spec(dtype, h, w, kinds=kinds))
    return {"sub": "mean", "raster": ras, "passes": draw(st.sampled_from([1, 2, 3, 1, 2, 0])), "excl": draw(st.sampled_from(sorted(EXCLUDES)))}


@st.composite
def weighted_kernel(draw, H, W, kdtype, cap=11, allow_bigger=True):
    sizes_h = [s for s in KSIZE_POOL if s <= min(H, cap)]      # mostly kernels that leave interior cells
    sizes_w = [s for s in KSIZE_POOL if s <= min(W, cap)]
    if allow_bigger and draw(st.integers(0, 9)) == 0:
        sizes_h = [s for s in ODD if s <= cap]
        sizes_w = sizes_h
    kh = draw(st.sampled_from(sizes_h))
    kw = draw(st.sampled_from(sizes_w))
    n = kh * kw
    if kdtype.startswith("int"):
        pool = st.sampled_from([-2, -1, 0, 0, 1, 1, 2, 3, 10])
    else:
        kind = draw(st.sampled_from(["ints", "halves", "free", "01"]))
        pool = {"ints": st.sampled_from([-2.0, -1.0, 0.0, 0.0, 1.0, 1.0, 2.0, 3.0]),
                "halves": st.sampled_from([-0.5, 0.0, 0.25, 0.5, 1.0, 1.5, 0.125]),
                "free": st.floats(-100, 100, allow_nan=False, allow_infinity=False, width=64),
                "01": st.sampled_from([0.0, 1.0])}[kind]
    flat = draw(st.lists(pool, min_size=n, max_size=n))
    return {"dtype": kdtype, "data": [flat[i * kw:(i + 1) * kw] for i in range(kh)]}


@st.composite
def conv_cases(draw, combos, max_side):
    h = draw(_sides(max_side))
    w = draw(_sides(max_side))
    dtype, kdtype = draw(st.sampled_from(combos))
    ras = draw(raster_spec(dtype, h, w))
    kern = draw(weighted_kernel(h, w, kdtype))
    return {"sub": "conv", "raster": ras, "kernel": kern}


@st.composite
def hotspot_cases(draw, dtypes, max_side):
    h = draw(st.one_of(st.integers(1, max_side), st.integers(4, max_side)))
    w = draw(st.one_of(st.integers(1, max_side), st.integers(4, max_side)))
    dtype = draw(st.sampled_from(dtypes))
    isf = dtype.startswith("float")
    uns = dtype.startswith("uint")
    n = h * w
    mode = draw(st.sampled_from(["spiky", "spiky", "spiky", "blocks", "blocks", "blocks", "palette", "palette", "const"]))
    if mode == "const":
        v = draw(st.sampled_from([0, 1, 3, 7] + ([] if uns else [-2]) + ([0.5, -1.25] if isf else [])))
        flat = [v] * n
        if isf and n > 1 and draw(st.booleans()):
            marks = draw(st.lists(st.booleans(), min_size=n, max_size=n))
            flat = ["nan" if m else v for m in marks]
            if all(f == "nan" for f in flat):
                flat[draw(st.integers(0, n - 1))] = v
        ras = {"dtype": dtype, "data": [flat[i * w:(i + 1) * w] for i in range(h)]}
    elif mode == "palette":
        ras = draw(raster_spec(dtype, h, w))
        fl = [v for row in ras["data"] for v in row]
        if all(v == "nan" for v in fl):
            ras["data"][0][0] = 1.0
    else:
        base = st.sampled_from([0, 0, 0, 1, 1, 2] + ([0.5] if isf else []))
        spikes = [50, 100, 200 if dtype == "uint8" else 1000, 7] + ([] if uns else [-50, -100, -900, -8]) + ([12.5, -3.75] if isf else [])
        if mode == "spiky":
            # spike density 1/3 .. 1/21: a lone spike's own z-score is about sqrt(cells per spike), i.e. 1.7 .. 4.6
            elem = st.one_of(*([base] * draw(st.sampled_from([2, 3, 4, 5, 6, 9, 20])) + [st.sampled_from(spikes)]))
            flat = draw(st.lists(elem, min_size=n, max_size=n))
        else:
            flat = draw(st.lists(base, min_size=n, max_size=n))
            for _ in range(draw(st.integers(1, 3))):
                y0 = draw(st.integers(0, h - 1))
                x0 = draw(st.integers(0, w - 1))
                bh = draw(st.integers(1, min(4, h - y0)))
                bw = draw(st.integers(1, min(4, w - x0)))
                v = draw(st.sampled_from(spikes))
                for yy in range(y0, y0 + bh):
                    for xx in range(x0, x0 + bw):
                        flat[yy * w + xx] = v
        if isf and draw(st.integers(0, 2)) == 0:
            k = draw(st.integers(0, n - 1))
            if n > 1:
                flat[k] = "nan"
        ras = {"dtype": dtype, "data": [flat[i * w:(i + 1) * w] for i in range(h)]}
    # kernel: 0/1 (small shapes so that windows stay inside) or positive weights; sum > 0 by construction
    kh = draw(st.sampled_from([s for s in (1, 3, 3, 5) if s <= h] if draw(st.integers(0, 7)) else _ksizes(h, 5)))
    kw = draw(st.sampled_from([s for s in (1, 3, 3, 5) if s <= w] if draw(st.integers(0, 7)) else _ksizes(w, 5)))
    nk = kh * kw
    if draw(st.booleans()):
        flatk = [float(b) for b in draw(st.lists(st.integers(0, 1), min_size=nk, max_size=nk))]
    else:
        flatk = draw(st.lists(st.sampled_from([0.0, 0.0, 0.25, 0.5, 1.0, 1.0, 2.0, 3.0]), min_size=nk, max_size=nk))
    if sum(flatk) <= 0:
        flatk[draw(st.integers(0, nk - 1))] = 1.0
    kern = {"dtype": "float64", "data": [flatk[i * kw:(i + 1) * kw] for i in range(kh)]}
    return {"sub": "hotspots", "raster": ras, "kernel": kern}


# ---------------------------------------------------------------- enumerations

K3_SHAPES = [(4, 5), (3, 3), (5, 4), (1, 4), (6, 6), (2, 3), (4, 1), (3, 7), (5, 5), (2, 2)]
K3_DTYPES = ["float64", "float32", "int32", "float64", "int64"]


def _h(*parts):
    return int(hashlib.sha1(":".join(str(p) for p in parts).encode()).hexdigest()[:12], 16)


def k3_raster(n):
    """Fixed raster number n (seed independent): all cells distinct, NaN cells in the float rasters with n % 5 in (0, 3) except n == 0."""
    h, w = K3_SHAPES[(n // 5 + n) % len(K3_SHAPES)] if n >= 5 else K3_SHAPES[n]
    dtype = K3_DTYPES[n % 5]
    cells = h * w
    order = sorted(range(cells), key=lambda c: _h("k3", n, c))
    scale = [1, 0.5, 1, 0.1, 1][n % 5]
    off = [0, cells // 2, cells // 2, 0, 0][n % 5]
    flat = [0] * cells
    for rank, c in enumerate(order):
        v = (rank + 1 - off) * scale
        flat[c] = v if dtype.startswith("float") else int(v)
    if dtype.startswith("float") and (n % 5 in (1, 3) or (n % 5 == 0 and n > 0)):
        dens = 2 + n % 3
        for c in range(cells):
            if _h("k3nan", n, c) % 7 < dens:
                flat[c] = "nan"
    return {"dtype": dtype, "data": [flat[i * w:(i + 1) * w] for i in range(h)]}


def _popcount_order():
    return sorted(range(512), key=lambda i: (bin(i).count("1"), i))


def k3_cases(ns):
    for n in ns:
        ras = k3_raster(n)
        kdtype = "int64" if n % 2 else "float64"
        for idx in _popcount_order():
            k = np.array([(idx >> b) & 1 for b in range(9)]).reshape(3, 3).astype(kdtype)
            yield {"sub": "stats", "raster": ras, "kernel": {"dtype": kdtype, "data": k.tolist()}, "enum": [n, idx]}


REJECT_SPECS = ([{"kind": "even", "shape": s} for s in [[2, 2], [2, 3], [3, 2], [4, 5], [1, 2], [2, 1], [4, 4], [6, 3], [3, 8]]] +
                [{"kind": "even", "shape": [2, 3], "dtype": "int64"}] +
                [{"kind": "list", "shape": [3, 3]}, {"kind": "tuple", "shape": [3, 3]}, {"kind": "list", "shape": [1, 3]}, {"kind": "list", "shape": [2, 2]}] +
                [{"kind": "odd", "shape": [3, 3]}, {"kind": "odd", "shape": [1, 5]}])


def reject_cases():
    for fn in ("custom_kernel", "focal_stats", "apply"):
        for spec in REJECT_SPECS:
            if spec["kind"] == "odd" and fn != "custom_kernel":
                continue            # positive control only where it costs no JIT compilation
            yield {"sub": "reject", "fn": fn, "kernel": spec}


# ---------------------------------------------------------------- shards

# (raster dtype, kernel dtype) pairs per shard: every pair costs one Numba specialisation per reducer (~0.7 s each)
STATS_COMBOS = [[("float64", "float64")], [("float32", "float64"), ("int32", "int64")], [("int64", "float64"), ("uint8", "int64")],
                [("float64", "int64"), ("int16", "float64")]]
RED_COMBOS = [[("float64", "float64"), ("int32", "int64")], [("float32", "int64"), ("int64", "float64")],
              [("float64", "int64"), ("uint8", "float64"), ("int16", "float64")]]
MEAN_DTYPES = [["float64", "int32"], ["float32", "int64", "uint8"]]
CONV_COMBOS = [[("float64", "float64"), ("int32", "float64")], [("float32", "float64"), ("float64", "int64"), ("int64", "float64"), ("uint8", "int64")]]
HOT_DTYPES = [["float64", "int32"], ["float32", "int64", "uint8", "int16"]]


def shards(tier):
    th = tier == "thorough"
    side = 16 if th else 12
    mul = 80 if th else 1
    out = []

    def rep(name, combos_list, body, strat, per, copies):
        for c in range(copies):
            for i, combos in enumerate(combos_list):
                nm = "%s#%d" % (name, c * len(combos_list) + i)
                out.append((nm, lambda ctx, combos=combos, nm=nm: drive_hypothesis(ctx, body, strat(combos, side), per, name=nm)))

    copies = 2 if th else 1
    rep("stats_rand", STATS_COMBOS, body_stats, stats_cases, 500 * mul // copies, copies)
    rep("reducer_rand", RED_COMBOS, body_reducer, reducer_cases, 600 * mul // copies, copies)
    rep("mean_rand", MEAN_DTYPES, body_mean, mean_cases, 800 * mul // copies, copies)
    rep("conv_rand", CONV_COMBOS, body_conv, conv_cases, 800 * mul // copies, copies)
    rep("hotspots_rand", HOT_DTYPES, body_hotspots, hotspot_cases, 600 * mul // copies, copies)
    if th:
        for s in range(10):
            ns = [n for n in range(50) if n % 10 == s]
            out.append(("k3enum#%d" % s, lambda ctx, ns=ns: drive_enum(
                ctx, body_stats, k3_cases(ns), space="all 512 0/1 3x3 kernels x rasters %s" % ns, size=512 * len(ns))))
    else:
        for n in range(5):
            out.append(("k3enum#%d" % n, lambda ctx, n=n: drive_enum(
                ctx, body_stats, k3_cases([n]), space="all 512 0/1 3x3 kernels x raster %d" % n, size=512)))
    out.append(("reject_enum", lambda ctx: drive_enum(ctx, body_reject, reject_cases(),
                                                      space="invalid kernels x {custom_kernel, focal_stats, apply}", size=len(list(reject_cases())))))
    return out


LEVEL_TEXT = ("Randomised (Hypothesis) plus bounded-exhaustive search on the NumPy backend. focal_stats / apply are compared cell by cell with a "
              "shift-and-stack brute-force model (float64 on the original data, precision-agnostic bound) for all seven built-in statistics and three "
              "position-sensitive numba-jitted user reducers over rasters up to 12x12 (16x16 thorough) with NaN cells and int/float dtypes and odd 0/1 kernels "
              "up to 11x11 - non-square, forced asymmetric, single-1, all-0, larger than the raster; all 512 0/1 3x3 kernels are enumerated "
              "on 5 (quick) / 50 (thorough) all-distinct rasters. focal.mean is compared with the iterated 3x3 nan-mean with excluded values copied through "
              "bit for bit (passes 0..3, five excludes lists); convolution_2d with the full-window weighted sum and its NaN border / NaN propagation; hotspots with the "
              "z-score classes (strict 1.65/1.96/2.58, ambiguity band counted), exact antisymmetry under negation and the zero-std error. What happens to even-shaped / non-ndarray kernels is recorded as a label, not judged.")
LEVEL_NOTE = ("Decision inside the enumerated 3x3-kernel space, sampling outside it. The statement fixes no working precision: a result is accepted within a forward "
              "error bound of the float64 statistic of the original data that covers one float32 rounding of every input and of the result and a single-precision "
              "evaluation in any order (Appendix C window-sum bound with the factor 2 widened to n/2 + 1 for windows of n cells); min / max / a reducer returning a window "
              "entry must equal the input value or its float32 rounding. Bit-exactness is kept only for hotspots(-x) == -hotspots(x) and for excluded cells of focal.mean. "
              "Kernels with entries other than 0/1 are outside the quantifier: observed, never judged - a change of `kernel == 1` into `kernel != 0` is therefore "
              "equivalent under the statement and is not detected by design. Hotspot cells where the float64 z and the z of the float32-rounded data disagree or lie within "
              "max(1e-4, 64 eps32 (1+max|x|/std)) of a threshold, and focal.mean cases where an intermediate value lies within 1e-9 of an excluded value with an inexact "
              "window sum, are skipped and counted. No +-inf cells; Dask is C01.")
TECHNIQUE = "property-based testing (Hypothesis) + exhaustive 3x3-kernel enumeration against an independent brute-force window model, plus a negation metamorphic relation for hotspots"
