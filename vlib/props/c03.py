"""C03 - zonal tables do not depend on how Dask rasters are chunked."""
import math

import numpy as np
from hypothesis import strategies as st

from .. import strategies as S
from ..core import R, dec_arr, dec_list, dec_scalar, drive_enum, drive_hypothesis
from ..oracles import zonal as Z
from .c04 import CAT_ALPH, _df_rows, _present, zone_grid

PROP = "C03"
RULE = ("Generator: C02/C04 inputs as Dask arrays with INDEPENDENT chunkings of zones and values (each a drawn composition of H and of W; forced classes "
        "all-ones, single chunk, 1-cell first/last chunk), scheduler {synchronous, threads x {1,2,4,16}}, list-type stats subsets, nodata, zone_ids/cat_ids "
        "with >= 1 requested zone present; 2-D crosstab count/percentage, 3-D crosstab count; plus every pair-free composition product of small rasters "
        "(exhaustive shards). Oracle: (a) the NumPy-backend table for the same inputs and (b) the brute-force table; rows matched by zone id; exact for "
        "ids/count/min/max, float64 formula bound for sum/mean/std/var. Non-trivial: >= 2 blocks and some zone split over >= 2 blocks or absent from a "
        "block. Distinct by SHA-1 of the case / enumeration index.")
ASSUMPTIONS = ["at least one requested zone exists (statement's proviso)", "stats_funcs is a list (documented for Dask)",
               "value magnitudes |v| <= 1e3 (int8..int64, uint8, float32, float64)",
               "scheduler/worker count is chosen by the harness; thread interleavings are sampled, not enumerated"]
BUDGET_S = {"quick": 200, "thorough": 1500}
EPS = 2.0 ** -52


def _dask(a, chunks, layout="C"):
    import dask.array as da
    return da.from_array(S.apply_layout(a, layout), chunks=tuple(tuple(c) for c in chunks))


def _sched(case):
    import dask
    s = case.get("scheduler", "synchronous")
    if s == "synchronous":
        return dask.config.set(scheduler="synchronous")
    return dask.config.set(scheduler="threads", num_workers=int(s.split(":")[1]))


def _blocks_info(zn, zch):
    """-> (n_blocks, split_or_absent)"""
    rows = np.cumsum([0] + list(zch[0]))
    cols = np.cumsum([0] + list(zch[1]))
    ids = Z.zone_ids_present(zn)
    nb = (len(rows) - 1) * (len(cols) - 1)
    per_zone = {z: 0 for z in ids}
    for i in range(len(rows) - 1):
        for j in range(len(cols) - 1):
            blk = zn[rows[i]:rows[i + 1], cols[j]:cols[j + 1]]
            for z in ids:
                if (blk == z).any():
                    per_zone[z] += 1
    split = any(n >= 2 for n in per_zone.values())
    absent = any(n < nb for n in per_zone.values())
    return nb, split, absent


def body_stats(case, ctx):
    import dask.dataframe as dd
    import xarray as xr
    from xrspatial.zonal import stats
    zn, vn = dec_arr(case["zones"]), dec_arr(case["values"])
    nodata = dec_scalar(case["nodata"])
    zone_ids = None if case["zone_ids"] is None else dec_list(case["zone_ids"])
    names = case["stats"]
    r = R()
    nb, split, absent = _blocks_info(zn, case["zchunks"])
    misaligned = case["zchunks"] != case["vchunks"]
    r.nt = nb >= 2 and (split or absent)
    r.label("sched=" + case.get("scheduler", "synchronous"), "vdtype=" + str(vn.dtype))
    for n, f in [("misaligned_chunkings", misaligned), ("zone_split", split and nb >= 2), ("zone_absent_from_block", absent and nb >= 2),
                 ("all_one_cell_chunks", all(c == 1 for ax in case["zchunks"] for c in ax) and nb > 1)]:
        if f:
            r.label(n)
    ids, table = Z.ref_stats_table(zn, vn, zone_ids, nodata, names)
    if not ids:
        return r  # proviso: at least one requested zone exists
    vm = Z.valid_mask(vn, nodata)
    if any(not vm[zn == z].any() for z in ids):
        r.label("empty_zone")
    kw = {"nodata_values": nodata, "stats_funcs": list(names)}
    if zone_ids is not None:
        kw["zone_ids"] = list(zone_ids)
    zd = xr.DataArray(_dask(zn, case["zchunks"], case.get("zlayout", "C")), dims=["y", "x"])
    vd = xr.DataArray(_dask(vn, case["vchunks"], case.get("vlayout", "C")), dims=["y", "x"])
    if case.get("zlayout", "C") != case.get("vlayout", "C"):
        r.label("mixed_memory_layouts")
    res = stats(zd, vd, **kw)
    if not isinstance(res, dd.DataFrame):
        r.label("observed:stats_result_not_a_dask_frame")   # laziness of the table is not part of the statement
    with _sched(case):
        df = res.compute() if hasattr(res, "compute") else res
    ndf = stats(xr.DataArray(zn, dims=["y", "x"]), xr.DataArray(vn, dims=["y", "x"]), **kw)
    if list(df.columns) != list(ndf.columns):
        return r.fail("stats.columns", "%s vs numpy %s" % (list(df.columns), list(ndf.columns)))
    zs = [float(z) for z in df["zone"].tolist()]
    if sorted(zs) != [float(i) for i in ids] or len(set(zs)) != len(zs):
        return r.fail("stats.rows", "zone column %s expected %s" % (zs, ids))
    nzs = [float(z) for z in ndf["zone"].tolist()]
    f32 = vn.dtype == np.float32
    for z in ids:
        k = zs.index(float(z))
        kn = nzs.index(float(z))
        v = vn[(zn == z) & vm].astype("float64")
        n = len(v)
        sumsq = float((v * v).sum())
        sumabs = float(np.abs(v).sum())
        for s in names:
            got = float(df[s].iloc[k])
            exp = table[z][s]
            gotn = float(ndf[s].iloc[kn])
            if n == 0:
                ok = math.isnan(got)
                tag = "empty_zone"
            elif s in ("count", "max", "min"):
                ok = got == exp
                tag = "exact"
            elif s == "sum":
                ok = abs(got - exp) <= (8 * EPS if not f32 else 2e-6) * sumabs * max(1, math.log2(n + 1)) + 1e-300
                tag = "sum"
            elif s == "mean":
                ok = abs(got - exp) <= (8 * EPS if not f32 else 2e-6) * sumabs / n * max(1, math.log2(n + 1)) + 1e-300
                tag = "mean"
            else:
                bound = (16 * EPS if not f32 else 4e-6) * (sumsq / n) * max(1, math.log2(n + 1))
                var = table[z]["var"] if "var" in table[z] else Z.ref_stat("var", v)
                if s == "var":
                    ok = (not math.isnan(got)) and abs(got - var) <= bound
                else:
                    if var <= bound:
                        ok = math.isnan(got) or got * got <= 4 * bound
                        r.amb += 1
                    else:
                        ok = (not math.isnan(got)) and abs(got * got - var) <= 2 * bound + 4 * EPS * var
                tag = "var"
            if not ok:
                return r.fail("stats.value[%s]" % tag, "zone %s %s: dask %r, brute force %r, numpy backend %r (zchunks %s vchunks %s)\n%s" % (
                    z, s, got, exp, gotn, case["zchunks"], case["vchunks"], df.to_string()))
    return r


def body_ct(case, ctx):
    import dask.dataframe as dd
    import xarray as xr
    from xrspatial.zonal import crosstab
    zn, vn = dec_arr(case["zones"]), dec_arr(case["values"])
    nodata = dec_scalar(case["nodata"])
    zone_ids = None if case["zone_ids"] is None else dec_list(case["zone_ids"])
    cat_ids = None if case["cat_ids"] is None else dec_list(case["cat_ids"])
    agg = case["agg"]
    r = R()
    nb, split, absent = _blocks_info(zn, case["zchunks"])
    misaligned = case["zchunks"] != case["vchunks"]
    r.nt = nb >= 2 and (split or absent)
    r.label("ct%dd" % vn.ndim, "agg=" + agg, "sched=" + case.get("scheduler", "synchronous"))
    if misaligned:
        r.label("misaligned_chunkings")
    three = vn.ndim == 3
    if three:
        labels = dec_list(case["layer_labels"])
        ids, table3 = Z.ref_crosstab_3d(zn, vn, labels, nodata, "count")
        cats = labels
    else:
        ids, cats, counts, totals = Z.ref_crosstab_2d(zn, vn, nodata)
    sel_z = ids if zone_ids is None else [z for z in ids if z in set(zone_ids)]
    sel_c = cats if cat_ids is None else [c for c in cats if c in set(cat_ids)]
    if not sel_z:
        return r
    kw = {"agg": agg, "nodata_values": nodata}
    if zone_ids is not None:
        kw["zone_ids"] = list(zone_ids)
    if cat_ids is not None:
        kw["cat_ids"] = list(cat_ids)
    zd = xr.DataArray(_dask(zn, case["zchunks"], case.get("zlayout", "C")), dims=["y", "x"])
    if three:
        vch = [[len(labels)]] + [list(c) for c in case["vchunks"]]
        if case.get("layer_chunked") and len(labels) > 1:
            vch[0] = [1] * len(labels)
        vd = xr.DataArray(_dask(vn, vch), dims=["cat", "y", "x"], coords={"cat": labels})
        vnp = xr.DataArray(vn, dims=["cat", "y", "x"], coords={"cat": labels})
    else:
        vd = xr.DataArray(_dask(vn, case["vchunks"], case.get("vlayout", "C")), dims=["y", "x"])
        vnp = xr.DataArray(vn, dims=["y", "x"])
    res = crosstab(zd, vd, **kw)
    if not isinstance(res, dd.DataFrame):
        r.label("observed:crosstab_result_not_a_dask_frame")
    with _sched(case):
        df = res.compute() if hasattr(res, "compute") else res
    ndf = crosstab(xr.DataArray(zn, dims=["y", "x"]), vnp, **kw)
    zs, cols, rows = _df_rows(df)
    nzs, ncols, nrows = _df_rows(ndf)
    if sorted(zs) != sorted(float(z) for z in sel_z) or len(set(zs)) != len(zs):
        return r.fail("ct.rows", "zone labels %s expected %s" % (zs, sel_z))
    if sorted(float(c) for c in cols) != sorted(float(c) for c in sel_c):
        return r.fail("ct.columns", "columns %s expected %s" % (cols, sel_c))
    for z in sel_z:
        for c in cols:
            got = float(rows[float(z)][0][c])
            gotn = float(nrows[float(z)][0][c]) if float(z) in nrows and c in nrows[float(z)][0] else None
            if three:
                exp, alt = table3[z][c], None
            elif agg == "count":
                exp, alt = float(counts[z][c]), None
            elif totals[z] == 0:
                exp, alt = float("nan"), 0.0
            else:
                exp, alt = 100.0 * counts[z][c] / totals[z], None
            if not (Z.close(got, exp) or (alt is not None and Z.close(got, alt))):
                return r.fail("ct.value[%s%s]" % ("3d" if three else "2d", ",misaligned" if misaligned else ""),
                              "zone %s cat %s: dask %r brute force %r numpy backend %r (zchunks %s vchunks %s)\n%s" % (
                                  z, c, got, exp, gotn, case["zchunks"], case["vchunks"], df.to_string()))
    return r


def body_bigid(case, ctx):
    """Zone ids beyond 2**53 (hashed 64-bit ids, cell indexes): "agreement is exact for zone ids" - compared as Python ints, never through a
    float.  Dask stats and crosstab tables against the NumPy tables of the same rasters."""
    import xarray as xr
    from xrspatial.zonal import crosstab, stats
    zn, vn = dec_arr(case["zones"]), dec_arr(case["values"])
    r = R(nt=True)
    r.label("bigid:" + case["what"])
    zd = xr.DataArray(_dask(zn, case["zchunks"], "C"), dims=["y", "x"])
    vd = xr.DataArray(_dask(vn, case["vchunks"], "C"), dims=["y", "x"])
    zx, vx = xr.DataArray(zn, dims=["y", "x"]), xr.DataArray(vn, dims=["y", "x"])
    kw = {}
    if case.get("zone_ids") is not None:
        kw["zone_ids"] = [int(z) for z in case["zone_ids"]]
        r.label("bigid:zone_ids")
        if not set(kw["zone_ids"]) & set(int(z) for z in zn.ravel().tolist()):
            return r   # proviso: at least one requested zone exists
    if case["what"] == "stats":
        res, ref = stats(zd, vd, stats_funcs=["count", "max"], **kw), stats(zx, vx, stats_funcs=["count", "max"], **kw)
    else:
        res, ref = crosstab(zd, vd, **kw), crosstab(zx, vx, **kw)
    with _sched(case):
        df = res.compute() if hasattr(res, "compute") else res
    got = [int(z) for z in df["zone"].tolist()]
    exp = sorted(set(int(z) for z in zn.ravel().tolist()))
    if case.get("zone_ids") is not None:
        exp = [z for z in exp if z in set(int(i) for i in case["zone_ids"])]
        if not exp:
            return r   # proviso: at least one requested zone exists
    want = [int(z) for z in ref["zone"].tolist()]
    if want != exp:
        return r.fail("bigid.numpy_zone_ids", "NumPy table has zone ids %s, the raster holds %s" % (want, exp))
    if got != exp:
        return r.fail("bigid.zone_ids_not_exact[%s]" % case["what"], "Dask table has zone ids %s, the raster holds %s (chunks %s / %s)" % (
            got, exp, case["zchunks"], case["vchunks"]))
    for c in df.columns:
        if c == "zone":
            continue
        a, b = np.asarray(df[c], dtype="float64"), np.asarray(ref[c], dtype="float64")
        if not np.array_equal(a, b, equal_nan=True):
            return r.fail("bigid.value[%s]" % case["what"], "column %r: dask %s vs numpy %s" % (c, a.tolist(), b.tolist()))
    return r


@st.composite
def bigid_cases(draw):
    h, w = draw(S.shapes(2, 6))
    base = draw(st.sampled_from([2 ** 53, 2 ** 62, -(2 ** 60)]))
    ids = [base + k for k in (1, 2, 3, 5)][:draw(st.integers(2, 4))]
    zones = draw(S.grid(h, w, ids))
    values = draw(S.grid(h, w, [0, 1, 2, 3]))
    zc, vc = draw(chunk_pair(h, w))
    present = sorted({v for row in zones for v in row})
    zone_ids = draw(st.one_of(st.none(), st.lists(st.sampled_from(present + [base + 7]), min_size=1, max_size=3, unique=True)))
    return {"sub": "bigid", "what": draw(st.sampled_from(["stats", "stats", "ct"])), "zone_ids": zone_ids, "zones": {"dtype": "int64", "data": zones},
            "values": {"dtype": "int32", "data": values}, "zchunks": zc, "vchunks": vc, "scheduler": draw(st.sampled_from(SCHEDS))}


BODIES = {"stats": body_stats, "ct": body_ct, "bigid": body_bigid}


# ------------------------------------------------------------------ strategies

SCHEDS = ["synchronous", "synchronous", "threads:1", "threads:2", "threads:4", "threads:16"]


@st.composite
def chunk_pair(draw, h, w):
    zc = [draw(S.chunking(h)), draw(S.chunking(w))]
    if draw(st.booleans()):
        vc = [draw(S.chunking(h)), draw(S.chunking(w))]
    else:
        vc = [list(zc[0]), list(zc[1])]
    return zc, vc


@st.composite
def stats_cases(draw, max_side):
    h, w = draw(S.shapes(1, max_side))
    zones, zkind = draw(zone_grid(h, w))
    vdtype = draw(st.sampled_from(["float64", "float64", "float32", "int32", "int64", "int16", "int8", "uint8"]))
    if vdtype.startswith("float"):
        pal = draw(st.sampled_from([S.PAL_HALVES, S.PAL_SIGNED, [0.0, 1.0, 2.0, 50.0, -30.5, 7.25], S.PAL_NONF32[:6] + [999.9] if vdtype == "float64" else S.PAL_HALVES]))
        vdata = draw(S.grid(h, w, pal, specials=["nan", "inf", "-inf"]))
    else:
        vdata = draw(S.grid(h, w, [0, 1, 2, 3, 7, 50, 100] + ([] if vdtype == "uint8" else [-1, -30]) + ([200, 255] if vdtype == "uint8" else [])))
    zpres = _present(zones)
    nodata = draw(st.sampled_from([None, None, 0, 99, 2]))
    zone_ids = None
    if zpres and draw(st.booleans()):
        zone_ids = draw(S.id_list(zpres, extra=[77] if zkind == "int" else [77.5]))
        if not any(z in zpres for z in zone_ids):
            zone_ids.append(zpres[0])
    zc, vc = draw(chunk_pair(h, w))
    return {"sub": "stats", "zones": zones, "values": {"dtype": vdtype, "data": vdata}, "nodata": nodata, "zone_ids": zone_ids,
            "stats": draw(st.lists(st.sampled_from(Z.STAT_NAMES), min_size=1, max_size=7, unique=True)),
            "zchunks": zc, "vchunks": vc, "scheduler": draw(st.sampled_from(SCHEDS)),
            "zlayout": draw(st.sampled_from(["C", "C", "F"])), "vlayout": draw(st.sampled_from(["C", "C", "F"]))}


@st.composite
def ct_cases(draw, max_side):
    h, w = draw(S.shapes(1, max_side))
    zones, zkind = draw(zone_grid(h, w))
    three = draw(st.integers(0, 3)) == 0
    zpres = _present(zones)
    zone_ids = cat_ids = None
    case = {"sub": "ct"}
    if three:
        L = draw(st.integers(1, 3))
        labels = [10, 20, 30][:L]
        vdtype = draw(st.sampled_from(["float64", "int32"]))
        layers = [draw(S.grid(h, w, [0, 1, 2, 3, 4, 7], specials=["nan"] if vdtype == "float64" else [])) for _ in range(L)]
        values = {"dtype": vdtype, "data": layers}
        case.update({"layer_labels": labels, "agg": "count", "layer_chunked": draw(st.booleans())})
        cpres, extra_c = labels, [999]
    else:
        ckind = draw(st.sampled_from(["int", "float"]))
        vdtype = draw(st.sampled_from(["int32", "int64"])) if ckind == "int" else draw(st.sampled_from(["float64", "float32"]))
        nc = draw(st.integers(1, 5))
        calph = draw(st.permutations(CAT_ALPH[ckind]))[:nc]
        values = {"dtype": vdtype, "data": draw(S.grid(h, w, calph, specials=["nan", "inf", "-inf"] if ckind == "float" else []))}
        case["agg"] = draw(st.sampled_from(["count", "percentage"]))
        cpres, extra_c = _present(values), ([42] if ckind == "int" else [42.5])
    nodata = draw(st.sampled_from([None, None, 0, 99]))
    cpres = [c for c in cpres if c != nodata] if not three else cpres
    mode = draw(st.sampled_from(["none", "none", "z", "c", "zc"]))
    if "z" in mode and zpres:
        zone_ids = draw(S.id_list(zpres, extra=[77] if zkind == "int" else [77.5]))
        if not any(z in zpres for z in zone_ids):
            zone_ids.append(zpres[0])
    if "c" in mode and cpres:
        cat_ids = draw(S.id_list(cpres, extra=extra_c))
    zc, vc = draw(chunk_pair(h, w))
    case.update({"zones": zones, "values": values, "nodata": nodata, "zone_ids": zone_ids, "cat_ids": cat_ids,
                 "zchunks": zc, "vchunks": vc, "scheduler": draw(st.sampled_from(SCHEDS)),
                 "zlayout": draw(st.sampled_from(["C", "C", "F"])), "vlayout": draw(st.sampled_from(["C", "C", "F"]))})
    return case


# exhaustive: every composition product (zones chunking) x a few value chunkings of fixed small rasters
FIX_Z = [[1, 1, 2, 2], [3, 1, 2, 3], [3, 3, 1, 1], [2, 2, 2, 1]]
FIX_V = [[0.5, 2.0, "nan", 1.0], [2.0, 2.0, 0.5, 7.0], [1.0, "nan", "nan", 3.0], [0.5, 0.5, 7.0, 2.0]]


def enum_cases(n, kind, lo, hi):
    comps = list(S.compositions(n))
    pairs = [(a, b) for a in comps for b in comps]
    zdata = [row[:n] for row in FIX_Z[:n]]
    vdata = [row[:n] for row in FIX_V[:n]]
    for idx in range(lo, min(hi, len(pairs))):
        a, b = pairs[idx]
        vch = [list(b), list(a)] if idx % 3 == 0 else [list(a), list(b)]   # every third: values chunked transposed-wise (misaligned)
        if kind == "stats":
            yield {"sub": "stats", "zones": {"dtype": "int64", "data": zdata}, "values": {"dtype": "float64", "data": vdata}, "nodata": None,
                   "zone_ids": None, "stats": list(Z.STAT_NAMES), "zchunks": [list(a), list(b)], "vchunks": vch, "scheduler": "synchronous", "enum": [n, idx]}
        else:
            yield {"sub": "ct", "zones": {"dtype": "int64", "data": zdata}, "values": {"dtype": "float64", "data": vdata}, "nodata": None,
                   "zone_ids": None, "cat_ids": None, "agg": "count" if idx % 2 else "percentage", "zchunks": [list(a), list(b)], "vchunks": vch,
                   "scheduler": "synchronous", "enum": [n, idx]}


def shards(tier):
    ns, nc, per_s, per_c, side = (8, 5, 25, 50, 5) if tier == "quick" else (8, 6, 250, 300, 9)
    out = []
    for i in range(ns):
        out.append(("stats#%d" % i, lambda ctx: drive_hypothesis(ctx, body_stats, stats_cases(side), per_s)))
    for i in range(nc):
        out.append(("ct#%d" % i, lambda ctx: drive_hypothesis(ctx, body_ct, ct_cases(side), per_c)))
    out.append(("bigid#0", lambda ctx: drive_hypothesis(ctx, body_bigid, bigid_cases(), 30 if tier == "quick" else 400)))
    sizes = [3] if tier == "quick" else [3, 4]
    for n in sizes:
        tot = (2 ** (n - 1)) ** 2
        nblk = 1 if n == 3 else 4
        for kind in ("stats", "ct"):
            for b in range(nblk):
                lo, hi = b * tot // nblk, (b + 1) * tot // nblk
                out.append(("enum_%s_%dx%d#%d" % (kind, n, n, b), lambda ctx, n=n, kind=kind, lo=lo, hi=hi: drive_enum(
                    ctx, BODIES[kind], enum_cases(n, kind, lo, hi), space="chunk compositions %s %dx%d [%d,%d)" % (kind, n, n, lo, hi), size=hi - lo)))
    return out


LEVEL_TEXT = ("Randomised search over inputs, independent chunkings of both rasters and schedulers/worker counts, plus every composition product of a 3x3 "
              "(quick) / 4x4 (thorough) raster, each compared with the NumPy backend and with a brute-force table.")
LEVEL_NOTE = ("Sampled outside the enumerated chunk products; the harness picks scheduler and worker count but does not own thread interleavings; "
              "std/var compared with the forward error bound of the documented sum-of-squares formula.")
TECHNIQUE = "differential property-based testing (Dask vs NumPy backend vs brute-force model) with exhaustive small chunk-composition products"
