"""C01 - Dask-backed rasters give the NumPy result for every chunking and scheduler."""
import math

import numpy as np
from hypothesis import strategies as st

from .. import strategies as S
from ..core import R, dec_arr, dec_list, dec_scalar, drive_enum, drive_hypothesis

PROP = "C01"
RULE = ("Generator: function registry (slope, aspect, curvature, hillshade, focal mean/apply/focal_stats/hotspots, convolution_2d, binary, reclassify, "
        "equal_interval, ten spectral indices, true_color, perlin, generate_terrain) x rasters 2..10 a side (all int/uint/float dtypes, NaN/+-inf cells, "
        "non-unit non-square cell sizes via coords or res) x odd kernels incl. non-square, asymmetric and larger than a chunk x a drawn composition of H and "
        "of W as chunks, drawn INDEPENDENTLY per input raster for multi-raster functions x scheduler {synchronous, threads x {1,2,4,16}}. Oracle: the same "
        "call on the NumPy raster: bit-identical (NaN=NaN) for per-cell kernels; label-equal outside a 1e-4 z-score band for hotspots, label-equal "
        "everywhere for equal_interval (its bounds depend on the raster only through min and max); rtol 1e-5/atol 1e-7 for perlin/generate_terrain (water threshold flips within 1e-4 counted ambiguous); result must be "
        "Dask-backed before compute. Exhaustive shards: every chunk-composition product of 3x3/4x4 (quick), 5x5 (thorough) rasters. Non-trivial: some input "
        "has >= 2 chunks on an axis and the NumPy result has a finite cell. Distinct by SHA-1 / enumeration index.")
ASSUMPTIONS = ["H,W >= 2 unless a res attribute is given (no cell size is defined otherwise)", "hotspots input is not constant (zero global std raises by contract)",
               "equal_interval input has max > min", "perlin/generate_terrain templates are float rasters",
               "scheduler and worker count are chosen by the harness; interleavings are sampled"]
BUDGET_S = {"quick": 220, "thorough": 1500}

SPECTRAL = {  # name -> band argument count
    "arvi": 3, "evi": 3, "gci": 2, "nbr": 2, "nbr2": 2, "ndvi": 2, "ndmi": 2, "savi": 2, "sipi": 3, "ebbi": 3,
}
TERRAIN = ["slope", "aspect", "curvature", "hillshade"]
APPLY_FUNCS = ["mean", "max", "min", "range", "std", "var", "sum", "u_first", "u_nnan", "u_wsum"]
STATS = ["mean", "max", "min", "range", "std", "var", "sum"]

_user_cache = {}


def _user_func(name):
    """Position-sensitive jitted reducers (compiled once per process)."""
    if name in _user_cache:
        return _user_cache[name]
    from xrspatial.utils import ngjit
    if name == "u_first":
        @ngjit
        def f(w):
            v = w[0, 0]
            return -1.0 if np.isnan(v) else v
    elif name == "u_nnan":
        @ngjit
        def f(w):
            n = 0.0
            for i in range(w.shape[0]):
                for j in range(w.shape[1]):
                    if np.isnan(w[i, j]):
                        n += 1.0 + 0.5 * i + 0.25 * j
            return n
    else:
        @ngjit
        def f(w):
            s = 0.0
            for i in range(w.shape[0]):
                for j in range(w.shape[1]):
                    if not np.isnan(w[i, j]):
                        s += w[i, j] * (1.0 + 2.0 * i + 0.5 * j)
            return s
    _user_cache[name] = f
    return f


def _sched(case):
    import dask
    s = case.get("scheduler", "synchronous")
    if s == "synchronous":
        return dask.config.set(scheduler="synchronous")
    return dask.config.set(scheduler="threads", num_workers=int(s.split(":")[1]))


def _mk(spec, case, k, backend):
    import xarray as xr
    a = dec_arr(spec)
    if backend == "dask":
        import dask.array as da
        ch = case["chunks"][k]
        a = da.from_array(a, chunks=(tuple(ch[0]), tuple(ch[1])))
    h, w = a.shape
    coords = {"y": S.mk_axis(case["y"]), "x": S.mk_axis(case["x"])}
    attrs = {}
    if case.get("res") == "scalar":
        attrs["res"] = case["x"]["step"]
    elif case.get("res") == "tuple":
        attrs["res"] = (case["x"]["step"], case["y"]["step"])
    elif case.get("res") == "list":
        attrs["res"] = [case["x"]["step"], case["y"]["step"]]
    return xr.DataArray(a, dims=["y", "x"], coords=coords, attrs=attrs)


def _call(case, backend):
    import xrspatial
    from xrspatial import classify, convolution, focal, multispectral
    fn = case["fn"]
    p = case.get("params", {})
    ras = [_mk(s, case, k, backend) for k, s in enumerate(case["rasters"])]
    if fn in TERRAIN:
        f = getattr(xrspatial, fn)
        if fn == "hillshade":
            return f(ras[0], azimuth=p["azimuth"], angle_altitude=p["altitude"])
        return f(ras[0])
    if fn == "focal_mean":
        return focal.mean(ras[0], passes=p["passes"], excludes=dec_list(p["excludes"]))
    kernel = np.array(dec_list(p["kernel"]), dtype="float64") if "kernel" in p else None
    if fn == "focal_apply":
        fu = p["func"]
        func = _user_func(fu) if fu.startswith("u_") else getattr(focal, "_calc_" + fu)
        return focal.apply(ras[0], kernel, func)
    if fn == "focal_stats":
        return focal.focal_stats(ras[0], kernel, stats_funcs=list(p["stats"]))
    if fn == "hotspots":
        return focal.hotspots(ras[0], kernel)
    if fn == "convolution_2d":
        return convolution.convolution_2d(ras[0], kernel)
    if fn == "binary":
        return classify.binary(ras[0], dec_list(p["values"]))
    if fn == "reclassify":
        return classify.reclassify(ras[0], bins=dec_list(p["bins"]), new_values=dec_list(p["new_values"]))
    if fn == "equal_interval":
        return classify.equal_interval(ras[0], k=p["k"])
    if fn in SPECTRAL:
        f = getattr(multispectral, fn)
        if fn == "evi":
            return f(*ras, c1=p["c1"], c2=p["c2"], soil_factor=p["soil_factor"], gain=p["gain"])
        if fn == "savi":
            return f(*ras, soil_factor=p["soil_factor"])
        return f(*ras)
    if fn == "true_color":
        return multispectral.true_color(*ras, nodata=p["nodata"], c=p["c"], th=p["th"])
    if fn == "perlin":
        return xrspatial.perlin(ras[0], freq=tuple(p["freq"]), seed=p["seed"])
    if fn == "generate_terrain":
        return xrspatial.generate_terrain(ras[0], x_range=tuple(p["x_range"]), y_range=tuple(p["y_range"]), seed=p["seed"], zfactor=p["zfactor"])
    raise KeyError(fn)


def _canon(a):
    a = np.array(a, copy=True)
    if a.dtype.kind == "f":
        a[np.isnan(a)] = np.nan
    return a.tobytes()


def body_d(case, ctx):
    import dask.array as da
    fn = case["fn"]
    r = R()
    chunks = case["chunks"]
    multi = any(len(ax) >= 2 for ch in chunks for ax in ch)
    r.label("fn=" + fn, "sched=" + case.get("scheduler", "synchronous"), "dtype=" + case["rasters"][0]["dtype"])
    if any(c == 1 for ch in chunks for ax in ch for c in ax) and multi:
        r.label("has_1cell_chunk")
    if len(chunks) > 1 and any(ch != chunks[0] for ch in chunks[1:]):
        r.label("misaligned_input_chunkings")
    p = case.get("params", {})
    if fn == "hotspots":
        vv = [v for row in case["rasters"][0]["data"] for v in row if not isinstance(v, str)]
        if vv and min(vv) >= 1000:
            r.label("hotspots_large_offset_small_spread")
    if "kernel" in p:
        kh, kw = len(p["kernel"]), len(p["kernel"][0])
        if kh != kw:
            r.label("nonsquare_kernel")
        if any(min(ax) <= kh // 2 for ax in [chunks[0][0]]) or any(min(ax) <= kw // 2 for ax in [chunks[0][1]]):
            r.label("chunk_not_larger_than_kernel_halfwidth")
    ref = _call(case, "numpy")
    refv = np.asarray(ref.data)
    res = _call(case, "dask")
    if not isinstance(res.data, da.Array):
        return r.fail("not_dask_backed[%s]" % fn, "result data type %r" % type(res.data))
    with _sched(case):
        got = np.asarray(res.data.compute())
    r.nt = multi and bool(np.isfinite(refv.astype("float64")).any())
    info = "fn=%s params=%s chunks=%s\nnumpy=%s\ndask=%s" % (fn, p, chunks, refv.tolist(), got.tolist())
    if got.shape != refv.shape:
        return r.fail("shape[%s]" % fn, info)
    if res.dims != ref.dims:
        return r.fail("dims[%s]" % fn, "%s vs %s" % (res.dims, ref.dims))
    if fn in ("perlin", "generate_terrain"):
        g, e = got.astype("float64"), refv.astype("float64")
        bad = ~np.isclose(g, e, rtol=1e-5, atol=1e-7, equal_nan=True)
        if fn == "generate_terrain" and bad.any():
            z = p["zfactor"]
            flip = bad & (((g == 0) & (e <= 0.3 * z * (1 + 1e-4))) | ((e == 0) & (g <= 0.3 * z * (1 + 1e-4))))
            r.amb += int(flip.sum())
            bad &= ~flip
        if bad.any():
            return r.fail("value[%s]" % fn, info)
        return r
    if fn == "hotspots":
        if got.dtype != refv.dtype:
            return r.fail("dtype[hotspots]", "%s vs %s" % (got.dtype, refv.dtype))
        bad = got != refv
        if bad.any():
            z = _hotspot_z(case)
            near = np.zeros(z.shape, bool)
            for t in (1.65, 1.96, 2.58):
                near |= np.abs(np.abs(z) - t) < 1e-4
            near |= np.abs(z) < 1e-6
            r.amb += int((bad & near).sum())
            bad &= ~near
        if bad.any():
            return r.fail("value[hotspots]", info)
        return r
    if fn == "equal_interval":
        g, e = got.astype("float64"), refv.astype("float64")
        bad = ~((g == e) | (np.isnan(g) & np.isnan(e)))
        # the class bounds depend on the raster only through its minimum and maximum, which do not depend on the order of reduction: the statement's
        # rounding allowance does not apply, cells exactly on a class boundary included
        if bad.any():
            a = dec_arr(case["rasters"][0]).astype("float64")
            fin = np.isfinite(a)
            lo, hi = a[fin].min(), a[fin].max()
            q = (a - lo) / ((hi - lo) / p["k"])
            if (bad & (np.abs(q - np.round(q)) < 1e-9)).any():
                r.label("equal_interval:differs_on_a_class_boundary")
            return r.fail("value[equal_interval]", info)
        return r
    if got.dtype != refv.dtype:
        return r.fail("dtype[%s]" % fn, "%s vs %s" % (got.dtype, refv.dtype))
    if _canon(got) != _canon(refv):
        return r.fail("not_bit_identical[%s]" % fn, info)
    return r


def _hotspot_z(case):
    a = dec_arr(case["rasters"][0]).astype("float32").astype("float64")
    k = np.array(dec_list(case["params"]["kernel"]), dtype="float64")
    k = k / k.sum()
    H, W = a.shape
    kh, kw = k.shape
    hr, hc = kh // 2, kw // 2
    z = np.full((H, W), np.nan)
    mu, sd = np.nanmean(a), np.nanstd(a)
    for y in range(hr, H - hr):
        for x in range(hc, W - hc):
            z[y, x] = ((k * a[y - hr:y + hr + 1, x - hc:x + hc + 1]).sum() - mu) / sd
    return np.nan_to_num(z, nan=0.0)


BODIES = {"d": body_d}


# ---------------------------------------------------------------- strategies

SCHEDS = ["synchronous", "synchronous", "synchronous", "threads:1", "threads:2", "threads:4", "threads:16"]


def _palette(dtype):
    if dtype.startswith("float"):
        return None
    if dtype.startswith("uint"):
        return [0, 1, 2, 3, 5, 9, 100, 200]
    if dtype == "int8":
        return [-3, -1, 0, 1, 2, 5, 9, 100]
    return [-30, -1, 0, 1, 2, 5, 9, 100, 1000]


@st.composite
def raster_spec(draw, h, w, dtype=None, specials=("nan", "inf", "-inf"), positive=False):
    dtype = dtype or draw(st.sampled_from(S.ALL_DTYPES + ["float64", "float32"]))
    pal = _palette(dtype)
    if pal is None:
        kind, pal = draw(S.float_values())
        if positive:
            pal = [abs(v) for v in pal]
        data = draw(S.grid(h, w, pal, specials=list(specials)))
    else:
        if positive:
            pal = [v for v in pal if v >= 0]
        data = draw(S.grid(h, w, pal))
    return {"dtype": dtype, "data": data}


@st.composite
def kernel01(draw, max_h, max_w):
    kh = draw(st.sampled_from([k for k in (1, 3, 5, 7) if k <= max(1, max_h)] or [1]))
    kw = draw(st.sampled_from([k for k in (1, 3, 5, 7) if k <= max(1, max_w)] or [1]))
    flat = draw(st.lists(st.sampled_from([0, 1, 1]), min_size=kh * kw, max_size=kh * kw))
    if not any(flat):
        flat[draw(st.integers(0, kh * kw - 1))] = 1
    return [flat[i * kw:(i + 1) * kw] for i in range(kh)]


@st.composite
def base(draw, nras, max_side, min_side=2):
    h, w = draw(st.integers(min_side, max_side)), draw(st.integers(min_side, max_side))
    y = draw(S.axis_coords(h, steps=(1, 0.5, 2, 30, 0.1), offsets=(0, 10.5, -3)))
    x = draw(S.axis_coords(w, steps=(1, 0.5, 3, 30, 0.25), offsets=(0, 100)))
    first = [draw(S.chunking(h)), draw(S.chunking(w))]
    chunks = [first]
    for _ in range(nras - 1):
        chunks.append([draw(S.chunking(h)), draw(S.chunking(w))] if draw(st.booleans()) else [list(first[0]), list(first[1])])
    return h, w, {"sub": "d", "y": y, "x": x, "chunks": chunks, "scheduler": draw(st.sampled_from(SCHEDS)),
                  "res": draw(st.sampled_from([None, None, "scalar", "tuple", "list"]))}


@st.composite
def terrain_cases(draw, max_side):
    h, w, case = draw(base(1, max_side))
    fn = draw(st.sampled_from(TERRAIN))
    case.update({"fn": fn, "rasters": [draw(raster_spec(h, w, specials=("nan",)))], "params": {}})
    if fn == "hillshade":
        case["params"] = {"azimuth": draw(st.sampled_from([0, 45, 225, 315, 360, 133.7])), "altitude": draw(st.sampled_from([0, 25, 45, 90, 12.5]))}
    return case


@st.composite
def focal_cases(draw, max_side):
    h, w, case = draw(base(1, max_side))
    fn = draw(st.sampled_from(["focal_mean", "focal_apply", "focal_apply", "focal_stats", "hotspots", "convolution_2d"]))
    specials = ("nan",)
    ras = draw(raster_spec(h, w, specials=specials))
    params = {}
    if fn == "focal_mean":
        params = {"passes": draw(st.integers(0, 3)), "excludes": draw(st.sampled_from([["nan"], ["nan", 0.0], [3.0], ["nan", -1.0, 2.0]]))}
    else:
        kernel = draw(kernel01(h, w))
        if fn == "convolution_2d":
            kernel = [[draw(st.sampled_from([0, 1, -1, 2, 0.5, -0.25])) for _ in row] for row in kernel]
        if fn == "hotspots":
            if draw(st.booleans()):
                kernel = [[v * draw(st.sampled_from([1, 2, 0.5])) for v in row] for row in kernel]
            # non-constant finite content by construction
            flatv = [v for row in ras["data"] for v in row if not isinstance(v, str)]
            if len(set(flatv)) < 2:
                ras["data"][0][0] = 1
                ras["data"][-1][-1] = 5
            # elevation-like data: a large offset with a small spread (global mean >> global std), where a numerically careless
            # global reduction on one backend is far outside "float rounding"
            off = draw(st.sampled_from([0, 0, 3000, 8000]))
            if off and ras["dtype"] in ("float32", "float64", "int32", "int64", "int16", "uint16"):
                ras["data"] = [[(v if isinstance(v, str) else (off + (v % 7 if isinstance(v, int) else max(-3.0, min(3.0, v))))) for v in row] for row in ras["data"]]
                if len({v for row in ras["data"] for v in row if not isinstance(v, str)}) < 2:
                    ras["data"][0][0] = off + 1
                    ras["data"][-1][-1] = off + 5
        params["kernel"] = kernel
        if fn == "focal_apply":
            params["func"] = draw(st.sampled_from(APPLY_FUNCS))
        if fn == "focal_stats":
            params["stats"] = draw(st.lists(st.sampled_from(STATS), min_size=1, max_size=4, unique=True))
    case.update({"fn": fn, "rasters": [ras], "params": params})
    return case


@st.composite
def classify_cases(draw, max_side):
    h, w, case = draw(base(1, max_side, min_side=1))
    fn = draw(st.sampled_from(["binary", "reclassify", "equal_interval"]))
    ras = draw(raster_spec(h, w))
    vals = [v for row in ras["data"] for v in row if not isinstance(v, str)]
    if fn == "binary":
        params = {"values": draw(st.lists(st.sampled_from(vals + [77] if vals else [77]), min_size=1, max_size=4))}
    elif fn == "reclassify":
        n = draw(st.integers(1, 6))
        bins = sorted(draw(st.lists(st.sampled_from(vals + [-100, 0.5, 3, 1e9] if vals else [0, 1]), min_size=n, max_size=n)))
        params = {"bins": bins, "new_values": [draw(st.sampled_from([0, 1, 5, -2, 10.5, 7])) for _ in bins]}
    else:
        if len(set(vals)) < 2:
            ras["data"][0][0] = 0
            if h * w > 1:
                ras["data"][-1][-1] = 9
            else:
                return draw(classify_cases(max_side))
        params = {"k": draw(st.integers(2, 7))}
        if draw(st.integers(0, 2)) == 0 and h * w >= 3:
            # every cell an integer between the bounds lo and lo + span, in single or double precision: cells sit exactly ON the class bounds, and
            # span / k is not exact in float32 - the place where bounds formed in another precision put a cell into another class
            lo, span = draw(st.sampled_from([0, 2, -5, 100])), draw(st.sampled_from([10, 12, 14, 30, 6]))
            flat = draw(st.lists(st.integers(lo, lo + span), min_size=h * w, max_size=h * w))
            flat[0], flat[-1] = lo, lo + span
            ras = {"dtype": draw(st.sampled_from(["float32", "float32", "float64", "int32"])),
                   "data": [[float(v) for v in flat[i * w:(i + 1) * w]] for i in range(h)]}
    case.update({"fn": fn, "rasters": [ras], "params": params})
    return case


@st.composite
def spectral_cases(draw, max_side):
    fn = draw(st.sampled_from(sorted(SPECTRAL) + ["true_color", "true_color"]))
    nb = 3 if fn == "true_color" else SPECTRAL[fn]
    h, w, case = draw(base(nb, max_side, min_side=1))
    dtype = draw(st.sampled_from(["uint8", "uint16", "int16", "int32", "float32", "float64", "float64"]))
    ras = [draw(raster_spec(h, w, dtype=dtype, specials=("nan",), positive=draw(st.booleans()))) for _ in range(nb)]
    params = {}
    if fn == "evi":
        params = {"c1": draw(st.sampled_from([6.0, 0.0, 2.5])), "c2": draw(st.sampled_from([7.5, 0.0, 1.0])),
                  "soil_factor": draw(st.sampled_from([1.0, 0.0, -1.0, 0.5])), "gain": draw(st.sampled_from([2.5, 0.0, 1.0]))}
    elif fn == "savi":
        params = {"soil_factor": draw(st.sampled_from([1.0, 0.0, -1.0, 0.5, -0.25]))}
    elif fn == "true_color":
        params = {"nodata": draw(st.sampled_from([1, 0, -5, 2.5])), "c": draw(st.sampled_from([10.0, 1.0, 25.0])), "th": draw(st.sampled_from([0.125, 0.5, 0.0]))}
    case.update({"fn": fn, "rasters": ras, "params": params})
    return case


@st.composite
def gen_cases(draw, max_side):
    h, w, case = draw(base(1, max_side, min_side=2))   # a 1-wide canvas has no defined resolution (calc_res divides by n-1): outside the domain
    fn = draw(st.sampled_from(["perlin", "perlin", "generate_terrain"]))
    dtype = draw(st.sampled_from(["float32", "float64"]))
    ras = {"dtype": dtype, "data": [[0.0] * w for _ in range(h)]}
    if fn == "perlin":
        params = {"freq": draw(st.sampled_from([[1, 1], [2, 3], [5, 0.5]])), "seed": draw(st.integers(0, 50))}
    else:
        params = {"x_range": draw(st.sampled_from([[0, 500], [-20, 20], [0, 1]])), "y_range": draw(st.sampled_from([[0, 500], [10, 30]])),
                  "seed": draw(st.integers(0, 50)), "zfactor": draw(st.sampled_from([4000, 1, 250.5]))}
    case.update({"fn": fn, "rasters": [ras], "params": params})
    return case


# exhaustive chunk products on fixed rasters
FIX = [[1.0, 2.0, 4.0, "nan", 7.0], [3.0, "nan", 5.0, 8.0, 2.0], [9.0, 4.0, 1.0, 6.0, 3.0], [2.0, 7.0, "nan", 5.0, 1.0], [6.0, 1.0, 8.0, 2.0, 9.0]]
ENUM_FNS = {
    "slope": {}, "aspect": {}, "curvature": {}, "hillshade": {"azimuth": 225, "altitude": 25},
    "focal_mean": {"passes": 2, "excludes": ["nan"]},
    "focal_apply": {"kernel": [[0, 1, 1], [1, 1, 0], [0, 0, 1]], "func": "u_wsum"},
    "focal_apply_5x3": {"kernel": [[1, 0, 0], [0, 1, 1], [1, 1, 0], [0, 0, 1], [1, 0, 0]], "func": "u_first"},
    "focal_stats": {"kernel": [[1, 1, 0]], "stats": ["max", "sum", "std"]},
    "hotspots": {"kernel": [[0, 1, 0], [1, 1, 1], [0, 1, 0]]},
    "convolution_2d": {"kernel": [[0.5, -1, 0], [2, 1, 0], [0, 0, -0.25]]},
    "equal_interval": {"k": 4}, "reclassify": {"bins": [2, 4, 6, 9], "new_values": [1, 2, 3, 4]}, "binary": {"values": [1, 2, 9]},
    "ndvi": {}, "evi": {"c1": 6.0, "c2": 7.5, "soil_factor": 1.0, "gain": 2.5}, "true_color": {"nodata": 1, "c": 10.0, "th": 0.125},
}


def enum_cases(n, fname, lo, hi):
    comps = list(S.compositions(n))
    pairs = [(a, b) for a in comps for b in comps]
    fn = fname.split("_5x3")[0]
    nb = 3 if fn == "true_color" else SPECTRAL.get(fn, 1)
    data = [row[:n] for row in FIX[:n]]
    for idx in range(lo, min(hi, len(pairs))):
        a, b = pairs[idx]
        ras = []
        for k in range(nb):
            d = [[(v if isinstance(v, str) else v + k * (i + 1)) for v in row] for i, row in enumerate(data)]
            ras.append({"dtype": "float64", "data": d})
        chunks = [[list(a), list(b)]] + [[list(b), list(a)] for _ in range(nb - 1)]   # other bands chunked differently
        yield {"sub": "d", "fn": fn, "rasters": ras, "params": dict(ENUM_FNS[fname]), "y": {"start": 0, "step": 2, "n": n, "desc": True},
               "x": {"start": 5, "step": 0.5, "n": n, "desc": False}, "chunks": chunks, "scheduler": "synchronous", "res": None, "enum": [n, fname, idx]}


def eqint_boundary_cases():
    """equal_interval on rasters holding EVERY integer between their bounds, so that cells sit exactly on the class bounds, for spans whose
    class width is / is not exact in single precision: dtype x lower bound x span x k, two chunkings."""
    i = 0
    for dt in ("float32", "float64", "int32"):
        for lo in (0, 2, -5, 100):
            for span in (6, 10, 12, 14, 30):
                for k in range(2, 8):
                    n = span + 1
                    for chunks in ([[1], [3] * (n // 3) + ([n % 3] if n % 3 else [])], [[1], [n]]):
                        i += 1
                        yield {"sub": "d", "y": {"start": 0, "step": 1, "desc": False, "n": 1}, "x": {"start": 0, "step": 1, "desc": False, "n": n},
                               "chunks": [chunks], "scheduler": "synchronous", "res": None, "fn": "equal_interval",
                               "rasters": [{"dtype": dt, "data": [[float(lo + j) for j in range(n)]]}], "params": {"k": k},
                               "enum": ["eqint_boundary", dt, lo, span, k, i % 2]}


def shards(tier):
    out = []
    side = 8 if tier == "quick" else 10
    plan = [("terrain", terrain_cases, 3, 150), ("focal", focal_cases, 4, 110), ("classify", classify_cases, 2, 120),
            ("spectral", spectral_cases, 3, 120), ("gen", gen_cases, 1, 25)]
    mult = 1 if tier == "quick" else 20
    for name, strat, nsh, per in plan:
        for i in range(nsh if tier == "quick" else nsh + 1):
            out.append(("%s#%d" % (name, i), lambda ctx, strat=strat, per=per: drive_hypothesis(ctx, body_d, strat(side), per * mult)))
    out.append(("eqint_boundary", lambda ctx: drive_enum(ctx, body_d, eqint_boundary_cases(), space="equal_interval: dtype x lower bound x span x k x 2 chunkings, "
                                                        "every integer between the bounds present", size=3 * 4 * 5 * 6 * 2)))
    if tier == "quick":
        eplan = [(3, f) for f in ("slope", "aspect", "curvature", "hillshade", "focal_apply", "convolution_2d", "hotspots")] + [(4, f) for f in ("slope", "focal_mean")]
    else:
        eplan = [(n, f) for n in (3, 4, 5) for f in ENUM_FNS]
    groups = {}
    for i, (n, f) in enumerate(eplan):
        groups.setdefault(i % (3 if tier == "quick" else 12), []).append((n, f))
    for g, items in groups.items():
        def run(ctx, items=items):
            for (n, f) in items:
                tot = (2 ** (n - 1)) ** 2
                drive_enum(ctx, body_d, enum_cases(n, f, 0, tot), space="chunk composition products %dx%d %s" % (n, n, f), size=tot)
        out.append(("enum#%d" % g, run))
    return out


LEVEL_TEXT = ("Differential search (Dask vs NumPy backend) over a registry of 25 public functions x dtypes x chunk compositions (independent per input) x "
              "kernels x schedulers/worker counts, bit-exact for per-cell kernels; plus every chunk-composition product of 3x3/4x4 (quick) and up to 5x5 "
              "(thorough) rasters for the registry functions.")
LEVEL_NOTE = ("Sampled outside the enumerated chunk products; the harness chooses scheduler and worker count but does not own interleavings; thresholded outputs "
              "(hotspots, terrain water level) skip and count cells inside a stated rounding band.")
TECHNIQUE = "differential property-based testing (Dask vs NumPy backend), exhaustive small chunk-composition products"
