"""C10 - analysis functions never modify their inputs and keep the raster's identity (stateful)."""
import copy
import io
import contextlib

import numpy as np
from hypothesis import strategies as st

from .. import strategies as S
from ..core import R, HarnessError, Violation, dec_arr, derive_seed, drive_enum, enc_arr, exc_bucket

PROP = "C10"
RULE = ("Generator: Hypothesis RuleBasedStateMachine over a pool of rasters. Rules: new_raster(shape 3..7, dtype int8..uint64/float32/float64, memory layout "
        "C/F/strided view/read-only, backend numpy/dask with drawn chunks, fractional coords, attrs with nested list, scalar coordinate) and one call rule per "
        "registry entry (terrain x4, focal mean/apply/focal_stats/hotspots, convolution_2d, classify x5, spectral x10, true_color, proximity/allocation/"
        "direction, a_star_search, viewshed, regions, trim, crop, zonal stats/crosstab/apply, local x9, polygonize, perlin, generate_terrain) whose raster "
        "arguments come from the pool (outputs re-enter the pool); a deterministic matrix shard calls every registry function on {C-float64, F-float32, "
        "view-int32, read-only-float64, dask-float64}. Oracle after every step: every pooled raster equals its deep snapshot (values+NaN pattern, dtype, "
        "dims, every coord incl. scalar, attrs deep, name, backend; documented exceptions: zonal.apply may change `values`' data, viewshed may widen the "
        "dtype without changing a value, dask inputs may be rechunked); np.shares_memory(out, in) is False (trim/crop must be views of their input); a write "
        "probe fills the output with a sentinel and re-checks all snapshots; a read-only input must not raise 'read-only'; identity (shape, dims, coords, "
        "attrs, backend) for raster-in/raster-out functions. Non-trivial step: an input that is non-C-contiguous, read-only, integer, float32, dask or an "
        "earlier output. Distinct by (function, dtype, layout, backend, derived).")
ASSUMPTIONS = ["identity is asserted against the first raster argument", "local.* consume a Dataset: checked for non-mutation and non-aliasing only",
               "sequences are bounded (25 steps quick / 50 thorough) and sampled"]
BUDGET_S = {"quick": 240, "thorough": 1500}

K3 = np.array([[0, 1, 0], [1, 1, 1], [0, 1, 0.]])
K13 = np.array([[1, 1, 0.]])
SENTINEL = 77


def _snap(da_):
    v = np.asarray(da_.data.compute() if hasattr(da_.data, "compute") else da_.data)
    return {
        "values": v.copy(), "dtype": str(da_.dtype), "dims": tuple(da_.dims), "shape": tuple(da_.shape),
        "coords": {k: (tuple(c.dims), np.asarray(c.values).copy()) for k, c in da_.coords.items()},
        "attrs": copy.deepcopy(dict(da_.attrs)), "name": da_.name, "dask": hasattr(da_.data, "compute"),
    }


def _same(da_, s, allow_dtype=False, allow_values=False):
    """-> list of differences between raster and its snapshot"""
    out = []
    try:
        v = np.asarray(da_.data.compute() if hasattr(da_.data, "compute") else da_.data)
    except Exception as e:  # noqa
        return ["cannot read data: %r" % e]
    if tuple(da_.shape) != s["shape"]:
        out.append("shape %s -> %s" % (s["shape"], da_.shape))
    elif not allow_values:
        a, b = v, s["values"]
        eq = np.array_equal(a.astype("float64"), b.astype("float64"), equal_nan=True) if a.dtype.kind in "fiu" else np.array_equal(a, b)
        if not eq:
            out.append("values changed")
    if str(da_.dtype) != s["dtype"] and not allow_dtype:
        out.append("dtype %s -> %s" % (s["dtype"], da_.dtype))
    if tuple(da_.dims) != s["dims"]:
        out.append("dims %s -> %s" % (s["dims"], da_.dims))
    if set(da_.coords) != set(s["coords"]):
        out.append("coord names %s -> %s" % (sorted(s["coords"]), sorted(da_.coords)))
    else:
        for k, (dims, vals) in s["coords"].items():
            if tuple(da_.coords[k].dims) != dims or not np.array_equal(np.asarray(da_.coords[k].values), vals):
                out.append("coord %s changed" % k)
    if dict(da_.attrs) != s["attrs"]:
        out.append("attrs %s -> %s" % (s["attrs"], dict(da_.attrs)))
    if da_.name != s["name"]:
        out.append("name %r -> %r" % (s["name"], da_.name))
    if hasattr(da_.data, "compute") != s["dask"]:
        out.append("backend changed")
    return out


# ------------------------------------------------------------------ registry
# name -> (n raster inputs, flags, callable(inputs, variant)) ; flags: identity, numpy_only, view, table, dataset, mutates_values, own_shape, widen, needs_int_zones

def _reg():
    import xrspatial as X
    from xrspatial import classify, convolution, focal, local, multispectral as ms, zonal
    from xrspatial.experimental.polygonize import polygonize
    import xarray as xr
    R_ = {}

    def add(name, n, f, **flags):
        R_[name] = (n, flags, f)
    add("slope", 1, lambda r, v: X.slope(r[0]), identity=True)
    add("aspect", 1, lambda r, v: X.aspect(r[0]), identity=True)
    add("curvature", 1, lambda r, v: X.curvature(r[0]), identity=True)
    add("hillshade", 1, lambda r, v: X.hillshade(r[0], azimuth=[225, 45][v % 2]), identity=True)
    add("focal_mean", 1, lambda r, v: focal.mean(r[0], passes=v % 3), identity=True)
    add("focal_apply", 1, lambda r, v: focal.apply(r[0], [K3, K13][v % 2]), identity=True)
    add("focal_stats", 1, lambda r, v: focal.focal_stats(r[0], K3, stats_funcs=["mean", "max"]), own_shape=True)
    add("hotspots", 1, lambda r, v: focal.hotspots(r[0], [K3, K13][v % 2]), identity=True, hotspots=True, nonconstant=True)
    add("convolution_2d", 1, lambda r, v: convolution.convolution_2d(r[0], [K3, K13][v % 2]), identity=True)
    add("binary", 1, lambda r, v: classify.binary(r[0], [[1, 2], [77], [0.5, 3]][v % 3]), identity=True)
    add("reclassify", 1, lambda r, v: classify.reclassify(r[0], [[1, 3, 9], [-5], [0, 0, 2, 100]][v % 3], [[1, 2, 3], [9], [4, 3, 2, 1]][v % 3]), identity=True)
    # k above the number of distinct values and a small num_sample take the "not enough unique values" / sampling paths
    add("quantile", 1, lambda r, v: classify.quantile(r[0], k=[3, 40, 2][v % 3]), identity=True, finite=True)
    add("natural_breaks", 1, lambda r, v: classify.natural_breaks(r[0], k=[3, 40, 2, 3][v % 4], num_sample=[20000, 20000, 5, None][v % 4]),
        identity=True, numpy_only=True, finite=True)
    add("equal_interval", 1, lambda r, v: classify.equal_interval(r[0], k=[3, 7, 2][v % 3]), identity=True, nonconstant=True)
    for nm, nb in (("arvi", 3), ("evi", 3), ("gci", 2), ("nbr", 2), ("nbr2", 2), ("ndvi", 2), ("ndmi", 2), ("savi", 2), ("sipi", 3), ("ebbi", 3)):
        add(nm, nb, lambda r, v, nm=nm: getattr(ms, nm)(*r), identity=True)
    add("true_color", 3, lambda r, v: ms.true_color(*r), own_shape=True, needs_yx=True)
    _pk = lambda v: dict(max_distance=[np.inf, 2.0, 0.3, 1e9][v % 4], target_values=[[], [1], [77], [0, 3]][(v // 2) % 4],  # noqa
                         distance_metric=["EUCLIDEAN", "MANHATTAN"][(v // 3) % 2])
    add("proximity", 1, lambda r, v: X.proximity(r[0], **_pk(v)), identity=True, slow=True, needs_yx=True)
    add("allocation", 1, lambda r, v: X.allocation(r[0], **_pk(v)), identity=True, slow=True, needs_yx=True)
    add("direction", 1, lambda r, v: X.direction(r[0], **_pk(v)), identity=True, slow=True, needs_yx=True)
    def _astar(r, v):
        # variants exercise different code paths: corner to corner, start / goal on other cells (often a barrier or NaN cell: the
        # "nothing reachable" paths), snapping on and off, 4- and 8-connectivity
        a = r[0]
        ys, xs = a[a.dims[0]].values, a[a.dims[1]].values
        h, w = a.shape
        c = (h // 2, w // 2)
        # (start, goal, barriers, snap_start, snap_goal, connectivity)
        conf = [((0, 0), (h - 1, w - 1), [0], False, False, 8), ((0, w - 1), (h - 1, 0), [0], False, False, 4),
                ((1, 1), (h - 1, w - 1), [0], False, False, 8), ((h - 1, w - 1), (1, 1), [0, 1], False, False, 8),
                (c, (0, 0), [0], True, False, 8), ((0, 0), c, [0, 1], False, True, 4), ((0, w - 1), c, [0], True, True, 8),
                ((0, 0), (0, 0), [], False, False, 8), (c, (h - 1, 0), [1, 2, 3], False, False, 8), ((1, 0), (0, 1), [0, 2], False, False, 4),
                ((h - 1, 0), (0, w - 1), [5], False, True, 8), ((0, 1), (h - 1, w - 2), [0, 1, 2, 3, 4, 5], False, False, 8)]
        (sy_, sx_), (gy_, gx_), bar, ss, sg, conn = conf[v % len(conf)]
        return X.a_star_search(a, (float(ys[sy_]), float(xs[sx_])), (float(ys[gy_]), float(xs[gx_])), barriers=bar,
                               snap_start=ss, snap_goal=sg, connectivity=conn)
    add("a_star_search", 1, _astar, identity=True, numpy_only=True, needs_yx=True)
    add("viewshed", 1, lambda r, v: X.viewshed(r[0], x=float(r[0].x[[1, 0, -1][v % 3]]), y=float(r[0].y[[1, 0, -1][(v // 2) % 3]]),
                                               observer_elev=[1.0, 0.0, -1.0][v % 3], target_elev=[0, 2][v % 2]), identity=True, numpy_only=True, widen=True, finite=True, needs_yx=True)
    add("regions", 1, lambda r, v: X.regions(r[0], neighborhood=[4, 8][v % 2]), identity=True, numpy_only=True)
    add("trim", 1, lambda r, v: zonal.trim(r[0], values=[0]), view=True, numpy_only=True, keeps=True)
    add("crop", 2, lambda r, v: zonal.crop(r[0], r[1], zones_ids=[1, 2, 3, 4, 5]), view=True, numpy_only=True, view_of=1, keeps_crop=True)
    add("zonal_stats", 2, lambda r, v: zonal.stats(r[0], r[1], stats_funcs=["mean", "max", "count"] if v % 2 else ["sum", "min"]), table=True, same_backend=True)
    def _ct3d(r, v):
        # categorical (3-D) crosstab: the cube is built here from two pool rasters, so its before/after comparison is made here as well
        cube = xr.DataArray(np.stack([np.asarray(r[1].data), np.asarray(r[2].data)]) if v % 2 == 0 else
                            np.ascontiguousarray(np.stack([np.asarray(r[1].data), np.asarray(r[2].data)], axis=-1)),
                            dims=(["cat"] + list(r[1].dims)) if v % 2 == 0 else (list(r[1].dims) + ["cat"]), coords={"cat": [10, 20]})
        before = cube.copy(deep=True)
        out = zonal.crosstab(r[0], cube, layer=0 if v % 2 == 0 else -1, agg=["count", "sum", "count"][v % 3])   # min/max of a (zone, layer) without valid cells is undefined (design 11): not drawn here
        if not np.array_equal(np.asarray(cube.data), np.asarray(before.data), equal_nan=True) or cube.dims != before.dims:
            raise Violation("input_modified[zonal_crosstab_3d:values]", "the 3-D values cube changed during crosstab (layer axis %s, dtype %s)" % (
                "first" if v % 2 == 0 else "last", cube.dtype))
        return out
    add("zonal_crosstab_3d", 3, _ct3d, table=True, numpy_only=True)
    add("zonal_stats_da", 2, lambda r, v: zonal.stats(r[0], r[1], return_type="xarray.DataArray"), own_shape=True, numpy_only=True)
    add("zonal_crosstab", 2, lambda r, v: zonal.crosstab(r[0], r[1]), table=True, same_backend=True)
    add("zonal_apply", 2, lambda r, v: zonal.apply(r[0], r[1], lambda x: x % 2 + 1, nodata=0), mutates_values=1, numpy_only=True, int_first=True)
    for nm in ("cell_stats", "combine", "lesser_frequency", "equal_frequency", "greater_frequency", "lowest_position", "highest_position", "popularity", "rank"):
        def f(r, v, nm=nm):
            ds = xr.Dataset({"a": r[0], "b": r[1], "c": r[2]})
            fn = getattr(local, nm)
            if nm in ("cell_stats",):
                return fn(ds, func=["sum", "max", "mean"][v % 3])
            if nm in ("combine", "lowest_position", "highest_position"):
                return fn(ds)
            return fn(ds, "a")
        add("local_" + nm, 3, f, dataset=True, numpy_only=True, ref_int=nm in ("popularity", "rank"))
    add("polygonize", 1, lambda r, v: polygonize(r[0], connectivity=[4, 8][v % 2]), other=True, numpy_only=True, min2=True)
    add("perlin", 1, lambda r, v: X.perlin(r[0], seed=v), own_shape=True, float_only=True)
    add("generate_terrain", 1, lambda r, v: X.generate_terrain(r[0], seed=v), own_shape=True, float_only=True, slow=True, needs_yx=True)
    return R_


_REG = None


def reg():
    global _REG
    if _REG is None:
        _REG = _reg()
    return _REG


FN_NAMES = None


def fn_names():
    return sorted(reg())


class Executor:
    """Executes a history of JSON steps against xrspatial with the C10 invariant after every step."""

    def __init__(self):
        self.pool = []      # [{da, snap, desc}]
        self.steps = []
        self.stepinfo = []  # per executed call: (fn, dtype, layout, backend, derived, nontrivial)
        self.notes = []     # extra class labels collected while executing

    # ---- step: new raster
    def new(self, st_):
        import xarray as xr
        a = dec_arr(st_["spec"])
        a = S.apply_layout(a, st_["layout"])
        if st_["backend"] == "dask":
            import dask.array as da
            ch = (tuple(st_["chunks"][0]), tuple(st_["chunks"][1]))
            a = da.from_array(a, chunks=ch)
        h, w = a.shape
        dy, dx = st_.get("dims", ["y", "x"])
        ys = st_["y0"] + st_["sy"] * np.arange(h, dtype="float64")
        if st_.get("ydesc"):
            ys = ys[::-1].copy()
        coords = {dy: ys, dx: st_["x0"] + st_["sx"] * np.arange(w, dtype="float64")}
        if st_.get("scalar_coord"):
            coords["band"] = 7
        attrs = {"res": (st_["sx"], st_["sy"]), "meta": [1, [2, 3]]} if st_.get("attrs") else {}
        d = xr.DataArray(a, dims=[dy, dx], coords=coords, attrs=attrs, name=st_.get("name"))
        self.pool.append({"da": d, "snap": _snap(d), "desc": {"dtype": st_["spec"]["dtype"], "layout": st_["layout"], "backend": st_["backend"], "derived": False,
                                                              "yx": (dy, dx) == ("y", "x"),
                                                              "inf": any(v in ("inf", "-inf") for row in st_["spec"]["data"] for v in row)}})

    def _pick(self, idx, shape=None, pred=None):
        n = len(self.pool)
        for k in range(n):
            e = self.pool[(idx + k) % n]
            if shape is not None and tuple(e["da"].shape) != tuple(shape):
                continue
            if pred is not None and not pred(e):
                continue
            return (idx + k) % n
        return None

    # ---- step: call
    def call(self, st_, r):
        name = st_["fn"]
        nin, flags, f = reg()[name]
        idxs = []
        first = self._pick(st_["args"][0], pred=lambda e: self._ok_input(e, flags, 0))
        if first is None:
            return "skipped"
        idxs.append(first)
        shape = self.pool[first]["da"].shape
        for k in range(1, nin):
            j = self._pick(st_["args"][k % len(st_["args"])] + k, shape=shape,
                           pred=lambda e, k=k: self._ok_input(e, flags, k, self.pool[first]) and not any(e is self.pool[i] for i in idxs))
            if j is None:
                return "skipped"
            idxs.append(j)
        ins = [self.pool[i]["da"] for i in idxs]
        descs = [self.pool[i]["desc"] for i in idxs]
        d0 = descs[0]
        nontrivial = any(d["layout"] != "C" or d["backend"] == "dask" or d["dtype"] != "float64" or d["derived"] for d in descs)
        self.stepinfo.append((name, d0["dtype"], d0["layout"], d0["backend"], d0["derived"], nontrivial))
        # +-inf cells anywhere, and NaN cells for the functions flagged `finite` (viewshed): whether the function accepts them is not this
        # property's subject (an exception is tolerated); that it leaves them alone is
        tol = any(d.get("inf") for d in descs) or bool(flags.get("finite") and any(
            self.pool[i]["snap"]["values"].dtype.kind == "f" and not np.isfinite(self.pool[i]["snap"]["values"]).all() for i in idxs))
        try:
            with contextlib.redirect_stdout(io.StringIO()):
                out = f(ins, st_.get("variant", 0))
        except ValueError as e:
            if "read-only" in str(e) or "not writeable" in str(e):
                r.fail("inplace_write_attempt[%s]" % name, "ValueError on a read-only input: %s" % e)
                return "failed"
            if "overlapping depth" in str(e) and name in ("proximity", "allocation", "direction"):
                # outside the functions' stated domain (property C07: the halo, in cells, must not exceed the raster's own height/width - a Dask
                # limitation the function does not work around); the before/after comparison below still runs
                self.notes.append("halo_exceeds_raster[%s]" % name)
            elif not tol:
                raise
            out = None
        except (Violation, HarnessError):
            raise
        except Exception:  # noqa
            if not tol:
                raise
            out = None
        if tol:
            self.notes.append("input_with_nonfinite_cell:%s[%s]" % (name, "raised" if out is None else "ok"))
        self._check_all(r, name, flags, idxs, "after call")
        if r.fails:
            return "failed"
        import xarray as xr
        if isinstance(out, xr.DataArray):
            try:
                self._check_output(r, name, flags, ins, idxs, out, st_)
            except (Violation, HarnessError):
                raise
            except Exception:  # noqa
                if not tol:
                    raise
                return "skipped"   # a lazy result that fails to compute on +-inf cells
            if r.fails:
                return "failed"
            if st_.get("keep", True) and out.ndim == 2 and out.shape[0] >= 3 and out.shape[1] >= 3 and out.dtype.kind in "fiu" and not flags.get("view"):
                if len(out.dims) == 2 and all(dn in out.coords for dn in out.dims) and len(self.pool) < 12:
                    self.pool.append({"da": out, "snap": _snap(out), "desc": {"dtype": str(out.dtype), "layout": "C", "backend": "dask" if hasattr(out.data, "compute") else "numpy", "derived": True}})
        return "ok"

    def _ok_input(self, e, flags, k, first=None):
        d = e["da"]
        desc = e["desc"]
        if flags.get("numpy_only") and desc["backend"] == "dask":
            return False
        if flags.get("needs_yx") and tuple(d.dims[-2:]) != ("y", "x"):
            return False   # called with its default x='x', y='y' / documented y-x coordinate names
        if first is not None and tuple(first["da"].dims) != tuple(d.dims):
            return False   # rasters of one call share their dimension names
        if first is not None and any(dn in first["da"].coords and dn in d.coords and not np.array_equal(first["da"][dn].values, d[dn].values)
                                     for dn in d.dims):
            return False   # rasters of one call lie on one grid (xr.Dataset would otherwise outer-join them into NaN-padded float layers)
        if first is not None and (flags.get("same_backend") or True) and (first["desc"]["backend"] != desc["backend"]):
            return False   # validate_arrays: all inputs of one call share a backend
        if flags.get("float_only") and d.dtype.kind != "f":
            return False
        if k == 0 and flags.get("int_first") and d.dtype.kind not in "iu":
            return False
        if flags.get("ref_int") and k == 0:
            if d.dtype.kind not in "iu":
                return False
            v = e["snap"]["values"]
            if v.min() < 1 or v.max() > 3:
                return False
        v = e["snap"]["values"]
        if flags.get("nonconstant"):
            fv = v.astype("float64")
            fv = fv[np.isfinite(fv)]
            if fv.size < 2 or fv.min() == fv.max():
                return False
        if flags.get("keeps") and not (v != 0).any():
            return False
        if flags.get("keeps_crop") and k == 0 and not np.isin(v, [1, 2, 3, 4, 5]).any():
            return False
        if flags.get("dataset") and np.isnan(v.astype("float64")).all():
            return False
        return True

    def _check_all(self, r, name, flags, idxs, when):
        for i, e in enumerate(self.pool):
            pos = idxs.index(i) if i in idxs else None
            allow_values = pos is not None and flags.get("mutates_values") == pos
            allow_dtype = pos is not None and (flags.get("widen") or allow_values)
            diffs = _same(e["da"], e["snap"], allow_dtype=allow_dtype, allow_values=allow_values)
            if diffs:
                role = "argument %d" % pos if pos is not None else "a raster that was not even passed"
                r.fail("input_modified[%s:%s]" % (name, diffs[0].split(" ")[0]), "%s: %s of %s changed: %s (input dtype %s layout %s backend %s)" % (
                    when, role, name, diffs, e["desc"]["dtype"], e["desc"]["layout"], e["desc"]["backend"]))
                return
            if allow_values or (allow_dtype and str(e["da"].dtype) != e["snap"]["dtype"]):
                e["snap"] = _snap(e["da"])   # documented exception: take the new state as the reference from here on

    def _check_output(self, r, name, flags, ins, idxs, out, st_):
        out_dask = hasattr(out.data, "compute")
        in_dask = hasattr(ins[0].data, "compute")
        # aliasing
        if not out_dask:
            for k, a in enumerate(ins):
                if hasattr(a.data, "compute"):
                    continue
                sh = np.shares_memory(out.data, a.data)
                if flags.get("view"):
                    pass   # documented exception: trim/crop MAY return views of their input (a copy is fine too)
                elif sh:
                    r.fail("output_aliases_input[%s]" % name, "np.shares_memory(output, argument %d) is True (dtype %s layout %s)" % (
                        k, a.dtype, self.pool[idxs[k]]["desc"]["layout"]))
                    return
            # write probe
            if not flags.get("view") and out.data.flags.writeable and out.size:
                keep = out.data.copy()
                out.data[...] = SENTINEL if out.dtype.kind != "b" else True
                self._check_all(r, name, flags, idxs, "after writing to the output")
                out.data[...] = keep
                if r.fails:
                    r.fails[-1] = (r.fails[-1][0].replace("input_modified", "write_to_output_changes_input"), r.fails[-1][1])
                    return
        # identity
        if flags.get("identity"):
            a = ins[0]
            s = self.pool[idxs[0]]["snap"]
            if tuple(out.shape) != s["shape"]:
                return r.fail("identity.shape[%s]" % name, "%s vs %s" % (out.shape, s["shape"]))
            if tuple(out.dims) != s["dims"]:
                return r.fail("identity.dims[%s]" % name, "%s vs %s" % (out.dims, s["dims"]))
            if set(out.coords) != set(s["coords"]):
                return r.fail("identity.coords[%s]" % name, "coords %s vs input %s" % (sorted(out.coords), sorted(s["coords"])))
            for k, (dims, vals) in s["coords"].items():
                if not np.array_equal(np.asarray(out.coords[k].values), vals):
                    return r.fail("identity.coords[%s]" % name, "coord %s differs" % k)
            oa = dict(out.attrs)
            if flags.get("hotspots") and "unit" not in s["attrs"]:
                oa.pop("unit", None)   # hotspots documents an added 'unit' attribute
            if oa != s["attrs"]:
                return r.fail("identity.attrs[%s]" % name, "attrs %s vs input %s" % (oa, s["attrs"]))
            if out_dask != in_dask:
                return r.fail("identity.backend[%s]" % name, "input dask=%s output dask=%s" % (in_dask, out_dask))


    # ---- run
    def run(self, steps, r):
        for st_ in steps:
            self.steps.append(st_)
            if st_["op"] == "new":
                self.new(st_)
            else:
                if not self.pool:
                    continue
                res = self.call(st_, r)
                if res == "failed":
                    return


def body_seq(case, ctx):
    r = R()
    ex = Executor()
    try:
        ex.run(case["steps"], r)
    except (Violation, HarnessError):
        raise
    except Exception as e:  # an exception of a call inside the domain: bucket with the function name
        last = [s for s in ex.steps if s["op"] == "call"]
        fn = last[-1]["fn"] if last else "?"
        import traceback
        r.fail("%s[%s]" % (exc_bucket(e), fn), "%s: %s\n%s" % (type(e).__name__, e, traceback.format_exc()[-1500:]))
    r.nt = any(s[5] for s in ex.stepinfo)
    for (fn, dtype, layout, backend, derived, nt) in ex.stepinfo:
        r.label("fn=" + fn, "in=%s/%s/%s%s" % (dtype, layout, backend, "/derived" if derived else ""))
    r.label(*ex.notes)
    r.weight = max(1, len(ex.stepinfo))
    ctx_steps = getattr(ctx, "c10_steps", None)
    if ctx_steps is not None:
        for s in ex.stepinfo:
            ctx_steps.add(s[:5])
    return r


BODIES = {"seq": body_seq}


# ------------------------------------------------------------------ strategies / machine

@st.composite
def new_step(draw, dtype=None, layout=None, backend=None, dtypes=None):
    h, w = draw(st.integers(3, 7)), draw(st.integers(3, 7))
    dtype = dtype or draw(st.sampled_from(dtypes or S.ALL_DTYPES))
    if dtype.startswith("float"):
        pal = draw(st.sampled_from([[0.0, 1.0, 2.0, 3.0, 5.0], [0.5, 1.5, 2.0, 0.0, 4.25, "nan"], [1.0, 2.0, 3.0, 4.0, 5.0, 0.0],
                                    [0.0, 1.0, 2.0, 3.0, 5.0], [0.5, 1.5, 2.0, 0.0, 4.25, "nan"], [1.0, 2.0, 3.0, 4.0, 5.0, 0.0],
                                    # +-inf cells are values like any other for "no function changes the values of its inputs"
                                    [1.0, 2.0, 3.0, 0.0, 5.0, 1.0, 2.0, 3.0, "inf"], [0.5, 2.0, 0.0, 4.0, 0.5, 2.0, 4.0, "-inf"]]))
    else:
        pal = [0, 1, 2, 3, 4, 5]
    flat = draw(st.lists(st.sampled_from(pal), min_size=h * w, max_size=h * w))
    backend = backend or draw(st.sampled_from(["numpy", "numpy", "numpy", "dask"]))
    return {"op": "new", "spec": {"dtype": dtype, "data": [flat[i * w:(i + 1) * w] for i in range(h)]},
            "layout": layout or draw(st.sampled_from(["C", "F", "view", "ro"])), "backend": backend,
            "chunks": [draw(S.chunking(h)), draw(S.chunking(w))], "sy": draw(st.sampled_from([1.0, 0.5, 2.0])), "sx": draw(st.sampled_from([1.0, 0.5, 3.0])),
            "y0": draw(st.sampled_from([0.0, 10.5])), "x0": draw(st.sampled_from([0.0, -3.25])), "scalar_coord": draw(st.booleans()),
            "attrs": draw(st.booleans()), "name": draw(st.sampled_from([None, "in"])),
            "dims": draw(st.sampled_from([["y", "x"], ["y", "x"], ["lat", "lon"], ["row", "col"]])), "ydesc": draw(st.booleans())}


@st.composite
def call_step(draw, names=None):
    return {"op": "call", "fn": draw(st.sampled_from(names or fn_names())), "args": [draw(st.integers(0, 11)), draw(st.integers(0, 11)), draw(st.integers(0, 11))],
            "variant": draw(st.integers(0, 23))}


def run_machine(ctx, max_examples, step_count, fast_only=False, dtypes=None):
    # each worker process restricts itself to a few dtypes: every (function, dtype) pair is a separate Numba specialisation
    # (~0.5 s each), and the shards together cover all ten dtypes
    import hypothesis
    from hypothesis import HealthCheck, settings
    from hypothesis.stateful import RuleBasedStateMachine, initialize, rule, run_state_machine_as_test
    names = [n for n in fn_names() if not (fast_only and reg()[n][1].get("slow"))]
    holder = {}

    class Machine(RuleBasedStateMachine):
        def __init__(self):
            super().__init__()
            self.ex = Executor()
            self.r = R()

        def _after(self):
            if self.r.fails:
                holder["fail"] = (list(self.ex.steps), self.r.fails[0])
                raise Violation(*self.r.fails[0])

        @initialize(a=new_step(dtypes=dtypes), b=new_step(dtypes=dtypes), c=new_step(dtype="int32", backend="numpy"))
        def init(self, a, b, c):
            b = dict(b)
            b["spec"] = {"dtype": b["spec"]["dtype"], "data": a["spec"]["data"]} if False else b["spec"]
            for s_ in (a, b, c):
                self._do(s_)
            # two more rasters of the first raster's shape so that multi-raster functions find partners
            for dt, bk in ((a["spec"]["dtype"], a["backend"]), ("int64", a["backend"])):
                s2 = copy.deepcopy(a)
                s2["spec"]["dtype"] = dt if dt.startswith(("int", "uint")) or True else dt
                s2["spec"]["data"] = [[(v if isinstance(v, str) else (int(v) % 3 + 1)) for v in row] for row in a["spec"]["data"]]
                if dt.startswith(("int", "uint")):
                    s2["spec"]["data"] = [[(1 if isinstance(v, str) else v) for v in row] for row in s2["spec"]["data"]]
                s2["backend"] = bk
                s2["layout"] = "C" if bk == "dask" else s2["layout"]
                s2["dims"] = a.get("dims", ["y", "x"])
                self._do(s2)

        def _do(self, step):
            if "fail" not in holder and ctx.expired():   # the budget stops the search only; shrink/replay runs stay deterministic
                return
            try:
                self.ex.run([step], self.r)
            except Violation:
                raise
            except Exception as e:  # noqa
                import traceback
                fn = step.get("fn", "new")
                self.r.fail("%s[%s]" % (exc_bucket(e), fn), "%s: %s\n%s" % (type(e).__name__, e, traceback.format_exc()[-1500:]))
            self._after()

        @rule(s=new_step(dtypes=dtypes))
        def new_raster(self, s):
            if len(self.ex.pool) < 12:
                self._do(s)

        @rule(s=call_step(names))
        def call(self, s):
            self._do(s)

        @rule(s=call_step(names))
        def call2(self, s):
            self._do(s)

        @rule(s=call_step(names))
        def call3(self, s):
            self._do(s)

        def teardown(self):
            # account the finished history
            r = R()
            r.nt = any(s[5] for s in self.ex.stepinfo)
            for (fn, dtype, layout, backend, derived, nt) in self.ex.stepinfo:
                key = (fn, dtype, layout, backend, derived)
                if nt and key not in seen:
                    seen.add(key)
                r.label("fn=" + fn)
            r.label(*self.ex.notes)
            r.weight = max(1, len(self.ex.stepinfo))
            ctx.evaluations += r.weight
            for c in r.cls:
                ctx.classes[c] += 1
            if len(ctx.samples) < 2 and len(self.ex.steps) > 6:
                ctx.samples.append({"sub": "seq", "steps": self.ex.steps[:8] + [{"op": "...", "more": len(self.ex.steps) - 8}]})

    seen = ctx.__dict__.setdefault("c10_seen", set())
    sett = settings(max_examples=max_examples, stateful_step_count=step_count, database=None, deadline=None, derandomize=False,
                    report_multiple_bugs=False, print_blob=False,
                    suppress_health_check=[HealthCheck.too_slow, HealthCheck.data_too_large, HealthCheck.large_base_example, HealthCheck.filter_too_much])
    M = hypothesis.seed(derive_seed(ctx.seed, ctx.prop, ctx.shard))(Machine)
    try:
        with contextlib.redirect_stdout(io.StringIO()):
            run_state_machine_as_test(M, settings=sett)
    except BaseException as e:  # Violation, or Hypothesis' Flaky/ExceptionGroup wrapping it
        if isinstance(e, (KeyboardInterrupt, SystemExit, MemoryError)) or "fail" not in holder:
            raise
        steps, (bucket, msg) = holder["fail"]
        ctx.violations.append({"bucket": bucket, "msg": msg, "case": {"sub": "seq", "steps": steps}})
    ctx.nt_digests.update("%s|%s|%s|%s|%s" % k for k in seen)
    ctx.classes["distinct (fn,dtype,layout,backend,derived) non-trivial steps"] = len(seen)


MATRIX = [("float64", "C", "numpy"), ("float32", "F", "numpy"), ("int32", "view", "numpy"), ("float64", "ro", "numpy"), ("float64", "C", "dask"),
          ("float32", "C", "dask"),   # a cast to the working dtype is a no-op here: the kernel sees the chunks held by the caller's graph
          ("uint8", "F", "numpy"), ("int64", "ro", "numpy"), ("float32", "view", "dask")]
BASE = [[1, 2, 3, 1, 0], [2, 0, 1, 3, 2], [3, 1, 2, 0, 1], [1, 3, 0, 2, 3], [2, 1, 3, 1, 2]]


def matrix_cases(names, combos):
    for fn in names:
        for combo in [tuple(c) + (None,) for c in combos] + [("float64", "C", "numpy", "inf"), ("float32", "F", "numpy", "-inf")]:
            dtype, layout, backend, special = combo
            steps = []
            for k in range(3):
                data = [[(v + k) % 4 if k else v for v in row] for row in BASE]
                if k == 1:
                    data = [[(v % 3) + 1 for v in row] for row in BASE]
                elif special:
                    data[1][2] = special    # one +-inf cell: a value like any other for "inputs are left untouched"
                steps.append({"op": "new", "spec": {"dtype": dtype if not (k == 1 and fn.startswith(("zonal_apply", "local_popularity", "local_rank")) and not dtype.startswith(("int", "uint"))) else "int32",
                                                     "data": data},
                              "layout": layout, "backend": backend, "chunks": [[2, 3], [1, 4]], "sy": 1.0, "sx": 2.0, "y0": 0.0, "x0": 5.0,
                              "scalar_coord": True, "attrs": not (special or layout == "ro"), "name": "in"})   # some classes without any attrs (no `res` to fall back on / to be stamped)
            if fn in ("zonal_apply", "local_popularity", "local_rank"):
                steps[0], steps[1] = steps[1], steps[0]
            for var in ((1, 2, 3, 4, 6, 11) if reg()[fn][1].get("slow") else range(12)):
                steps.append({"op": "call", "fn": fn, "args": [0, 1, 2], "variant": var})
            yield {"sub": "seq", "steps": steps, "matrix": [fn, dtype, layout, backend] + ([special] if special else [])}


def shards(tier):
    out = []
    names = fn_names()
    combos = MATRIX[:6] if tier == "quick" else MATRIX
    ng = 6
    for g in range(ng):
        mine = names[g::ng]
        out.append(("matrix#%d" % g, lambda ctx, mine=mine: drive_enum(ctx, body_seq, matrix_cases(mine, combos), stop_on_first=False,
                                                                      space="registry function x input class matrix: %s x %d classes" % (mine, len(combos)), size=len(mine) * (len(combos) + 2))))
    nm, ex, steps = (8, 7, 25) if tier == "quick" else (10, 60, 50)
    others = [d for d in S.ALL_DTYPES if d != "float64"]
    for i in range(nm):
        dts = ["float64", others[i % len(others)], others[(i + 4) % len(others)]]
        out.append(("machine#%d" % i, lambda ctx, dts=dts: run_machine(ctx, ex, steps, fast_only=(tier == "quick"), dtypes=dts)))
    if tier == "quick":
        out.append(("machine_slow#0", lambda ctx: run_machine(ctx, 3, 15, dtypes=["float64", "int32"])))
    return out


LEVEL_TEXT = ("Stateful model-based search (Hypothesis RuleBasedStateMachine): histories of public calls over a growing pool of rasters (outputs re-enter), with a "
              "deep snapshot / shares_memory / write-probe / identity invariant after every step, plus a deterministic function x dtype x layout x backend matrix.")
LEVEL_NOTE = ("Histories are bounded and sampled; the matrix covers every registry function on 6 (quick) / 9 (thorough) input classes plus two classes with a +-inf cell; identity is asserted against "
              "the first raster argument; documented exceptions are encoded per registry entry.")
TECHNIQUE = "stateful property-based testing (Hypothesis rule-based state machine) with snapshot/aliasing/write-probe invariants"
