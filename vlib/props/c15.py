"""C15 - polygonize is lossless: rasterising the polygons gives back the raster."""
import json
import os
import sys
import threading
import time

import numpy as np
from hypothesis import strategies as st

from .. import strategies as S
from ..core import R, dec_arr, drive_enum, drive_hypothesis
from ..oracles import floodfill as ff
from ..oracles import topo

PROP = "C15"
RULE = ("Generator: (a) every raster over a 2-letter alphabet with <= 12 cells (quick) / <= 16 cells, one dtype <= 20 cells (thorough) and every raster over a 3-letter "
        "alphabet (three values, or two values + a masked cell) with <= 9 cells (one variant <= 10 in thorough), for every shape h x w incl. 1xN, Nx1, 1x1, connectivity 4 and 8; "
        "(b) random rasters up to 24x24 from topology constructors (spiral, nested rings, comb/U, serpentine/S, tree, checkerboard, diagonal "
        "stripes, diamonds, holes touching the border, staircase, noise) cropped, flipped, padded and perturbed; well-separated values in "
        "int32/int64/uint32/float32/float64; bool/int/float 0-1 masks at densities none/one/some/half/all-but-one/all/one-whole-value; optional "
        "affine transform (tuple/list/ndarray, int or float); C/F/strided layouts; (c) the three fixtures of tests/test_polygonize.py with the expected "
        "values/areas/counts written in that file (validates the orientation, area and ordering conventions of this oracle against the repository). "
        "Oracle: flood-fill components of equal value among unmasked cells; per polygon: rings closed, vertices on cell corners, axis-parallel edges, "
        "exterior shoelace area > 0 and holes < 0 in (x=column, y=row); the cell centres inside the exterior and outside the holes (even-odd) must be "
        "exactly one component with the polygon's value, every unmasked cell in exactly one polygon, masked cells in none, area(exterior)-sum|area(hole)| "
        "= cell count; with a transform the result must equal the transform of the separately verified untransformed result (1e-9 relative to the "
        "magnitude of the terms). Non-trivial: >= 2 components; classes report holes, nested holes, pinch points, single column, masks; distinct by "
        "SHA-1 of the case (random) or enumeration index.")
ASSUMPTIONS = ["values are well separated (|a-b| > 1e-5*max|v| + 1e-8: float rasters are compared with isclose), finite, no NaN",
               "mask values are 0/1 (False/True) as documented", "numpy-backed 2-D DataArrays, raster and mask of equal shape",
               "transform = 6 finite numbers (a, b, c, d, e, f): x' = a*x + b*y + c, y' = d*x + e*y + f"]
BUDGET_S = {"quick": 240, "thorough": 900}

DTYPES = ["int64", "float64", "int32", "float32", "uint32", "uint64", "int16", "uint8", "int8", "uint16"]
POOLS = {
    # every integer width incl. values in the top half of the unsigned ranges (hashed 64-bit ids) and both ends of the signed ones
    "uint64": [0, 1, 2, 3, 255, 2 ** 40, 2 ** 63 - 1, 2 ** 63, 2 ** 63 + 12345, 2 ** 64 - 1],
    "int16": [0, 1, 2, 3, -1, -7, 255, 1000, 32767, -32768],
    "uint16": [0, 1, 2, 3, 7, 255, 1000, 32768, 65535, 40000],
    "uint8": [0, 1, 2, 3, 7, 127, 128, 200, 254, 255],
    "int8": [0, 1, 2, 3, -1, -7, 127, -128, 100, -100],
    "int32": [0, 1, 2, 3, -1, -7, 255, 1000, 2147483647, -2147483648],
    "int64": [0, 1, 2, 3, -1, -7, 255, 1000, 2 ** 40, -(2 ** 40) - 1],
    "uint32": [0, 1, 2, 3, 7, 255, 1000, 65536, 4000000000, 4294967295],
    "float32": [0.0, 1.0, 2.0, -1.0, 0.5, -2.25, 3.75, 100.0, 1000.0, -9999.0],
    "float64": [0.0, 1.0, 2.0, -1.0, 0.5, -2.25, 0.1, 100.0, 1000.0, -9999.0],
}
MASK_DTYPES = ["bool", "int64", "float64", "uint8", "int32", "float32"]
TRANSFORMS = [[1, 0, 0, 0, 1, 0], [1.2, -0.3, 0.2, 1.4, 0.7, 0.1], [30.0, 0.0, 500000.0, 0.0, -30.0, 4000000.0],
              [0, 1, 0, 1, 0, 0], [2.0, 0.0, -5.0, 0.0, 0.5, 7.0], [0.1, 0.0, 0.0, 0.0, 0.1, 0.0], [-1, 0, 10, 0, -1, 10],
              # structured special cases: pure translations (unit scale), single-axis offsets, half-pixel shift, flips, quarter turn with offset
              [1, 0, 256, 0, 1, 512], [1.0, 0.0, 0.5, 0.0, 1.0, 0.5], [1, 0, 7, 0, 1, 0], [1, 0, 0, 0, 1, -3], [1, 0, 0, 0, -1, 0],
              [-1, 0, 0, 0, 1, 0], [0, -1, 4, 1, 0, 2], [1, 0, 0, 0, 1, 1e6], [3, 0, 0, 0, 1, 0], [1, 0, 0, 0, 2, 5], [1, 1, 0, 0, 1, 0]]


# ---------------------------------------------------------------- watchdog
# A wrong boundary-following start makes _follow loop forever inside a nogil Numba kernel; the runner would only see a
# hung worker (exit 2, no verdict).  Local work-around: one daemon thread per worker process watches the call in flight;
# a call that has not returned after HANG_S seconds (normal: < 1 ms) is a failure of the property ("no result"), recorded
# with its case as a violation; the worker then writes its report and exits, because the kernel cannot be interrupted.
HANG_S = 120.0
_WD = {"thread": None, "cur": None}


def _wd_loop():
    while True:
        time.sleep(2.0)
        cur = _WD["cur"]
        if cur is not None and time.time() - cur[0] > HANG_S:
            t0, ctx, case = cur
            ctx.evaluations += 1
            ctx.violations.append({"bucket": "poly.no_result(hang)" + (".w1" if len(case["raster"]["data"][0]) == 1 else ""),
                                   "msg": "polygonize did not return within %d s (boundary following never closes)" % HANG_S, "case": case})
            # report file of this worker: $VERIF_WORKER_OUT if the worker exports it, else argv[6] of `python -m vlib.worker ...`
            out = os.environ.get("VERIF_WORKER_OUT") or (sys.argv[6] if len(sys.argv) >= 7 else None)
            if out:
                with open(out, "w") as f:
                    json.dump(ctx.to_json(), f, default=str)
                os._exit(0)
            os._exit(3)


def _guarded(ctx, case, fn):
    if _WD["thread"] is None:
        _WD["thread"] = threading.Thread(target=_wd_loop, daemon=True)
        _WD["thread"].start()
    _WD["cur"] = (time.time(), ctx, case)
    try:
        return fn()
    finally:
        _WD["cur"] = None


# ---------------------------------------------------------------- oracle

def judge(col, polys, vals, valid, conn, tag="", lab=None, ncomp=None):
    """Decide one polygonize result.  vals / valid: H x W nested lists.  Returns [(bucket, message)]."""
    H = len(vals)
    W = len(vals[0])
    fails = []

    def fail(name, msg, conn_specific=False):
        # bucket = sub-property + discriminating predicates (connectivity where the decision depends on it,
        # "w1" for the single-column code path)
        fails.append(("poly.%s%s%s%s" % (name, ".c%d" % conn if conn_specific else "", ".w1" if W == 1 else "", tag), msg))

    # the container types of the two paired sequences are not part of the statement (list, tuple or ndarray are all fine)
    try:
        col = list(col)
        polys = [list(rings) if isinstance(rings, (list, tuple)) else rings for rings in polys]
    except TypeError:
        fail("structure", "column %r and polygons %r are not sequences" % (type(col), type(polys)))
        return fails
    if len(col) != len(polys):
        fail("structure", "column (%d values) and polygons (%d) do not pair up" % (len(col), len(polys)))
        return fails
    if lab is None:
        lab, ncomp = ff.components(vals, valid, conn)
    n = H * W
    count = [0] * n
    comp_owner = {}
    masked_claim = False
    for k, rings in enumerate(polys):
        if not isinstance(rings, list) or len(rings) < 1:
            fail("structure", "polygon %d is %r" % (k, rings))
            return fails
        P = []
        for q, ring in enumerate(rings):
            what = "polygon %d (value %r) %s" % (k, col[k], "exterior" if q == 0 else "hole %d" % q)
            if not ff.ring_wellformed(ring):
                fail("ring_malformed", "%s: %r" % (what, ring))
                return fails
            pts = ring.tolist()
            if not ff.pts_closed(pts):
                fail("ring_not_closed", "%s first point %s != last point %s\n%s" % (what, pts[0], pts[-1], pts))
                return fails
            if not ff.pts_on_corners(pts, H, W):
                fail("vertex_not_on_cell_corner", "%s has a vertex that is not an integer corner of the %dx%d grid\n%s" % (what, H, W, pts))
                return fails
            if not ff.pts_axis_parallel(pts):
                fail("edge_not_axis_parallel", "%s has consecutive vertices that do not differ in exactly one coordinate\n%s" % (what, pts))
                return fails
            P.append(pts)
        ext_area = ff.pts_shoelace(P[0])
        if not ext_area > 0:
            fail("exterior_not_anticlockwise", "polygon %d (value %r): exterior signed area %r\n%s" % (k, col[k], ext_area, P[0]))
        hole_area = 0.0
        inside = ff.pts_cells(P[0], H, W)
        if len(P) > 1:
            hol = set()
            for q, pts in enumerate(P[1:]):
                ha = ff.pts_shoelace(pts)
                if not ha < 0:
                    fail("hole_not_clockwise", "polygon %d (value %r): hole %d signed area %r\n%s" % (k, col[k], q + 1, ha, pts))
                hole_area += abs(ha)
                hol.update(ff.pts_cells(pts, H, W))
            inside = [c for c in inside if c not in hol]
        ncell = len(inside)
        if ncell == 0:
            fail("polygon_without_cells", "polygon %d (value %r) contains no cell centre\n%s" % (k, col[k], P))
            continue
        if abs((abs(ext_area) - hole_area) - ncell) > 1e-9:
            fail("area_mismatch", "polygon %d (value %r): |exterior| %r - holes %r != %d cells inside\n%s" % (
                k, col[k], abs(ext_area), hole_area, ncell, P))
        labs = set()
        v = col[k]
        badval = None
        for c in inside:
            count[c] += 1
            l = lab[c]
            if l:
                labs.add(l)
                if badval is None and not (vals[c // W][c % W] == v):
                    badval = c
            elif not masked_claim:
                masked_claim = True
                fail("masked_cell_claimed", "polygon %d (value %r) contains masked cell (%d,%d)\n%s" % (k, v, c // W, c % W, P))
        if badval is not None:
            fail("value_mismatch", "polygon %d has value %r but contains cell (%d,%d) holding %r" % (
                k, v, badval // W, badval % W, vals[badval // W][badval % W]))
        elif len(labs) > 1:
            fail("polygon_spans_components", "polygon %d (value %r) contains cells of %d different %d-connected components %s\n%s" % (
                k, v, len(labs), conn, sorted(labs), P), True)
        for c in labs:
            if c in comp_owner and comp_owner[c] != k:
                fail("component_split", "%d-connected component %d (value %r) is shared by polygons %d and %d" % (
                    conn, c, v, comp_owner[c], k), True)
            comp_owner.setdefault(c, k)
    un = tw = None
    for c in range(n):
        if lab[c]:
            if count[c] == 0 and un is None:
                un = c
            elif count[c] > 1 and tw is None:
                tw = c
    if un is not None:
        fail("cell_unclaimed", "unmasked cell (%d,%d) value %r is in no polygon" % (un // W, un % W, vals[un // W][un % W]))
    if tw is not None:
        fail("cell_claimed_twice", "unmasked cell (%d,%d) value %r is in %d polygons" % (tw // W, tw % W, vals[tw // W][tw % W], count[tw]))
    return fails


def _shape_class(h, w):
    if h == 1 and w == 1:
        return "shape=1x1"
    if h == 1:
        return "shape=1xN"
    if w == 1:
        return "shape=Nx1(single column)"
    return "shape=small" if h * w <= 16 else ("shape=mid" if h * w <= 100 else "shape=large")


def _topology_labels(r, vals, valid, conn, H, W):
    lab, ncomp = ff.components(vals, valid, conn)
    r.nt = ncomp >= 2
    r.label("ncomp=%s" % ("0" if ncomp == 0 else "1" if ncomp == 1 else "2-5" if ncomp <= 5 else "6-30" if ncomp <= 30 else ">30"))
    if H >= 3 and W >= 3:
        cells = ff.component_cells(lab, ncomp)
        holed = []
        for c in cells:
            if len(c) >= 4:
                e = ff.enclosed_cells(c, H, W)
                if e:
                    holed.append((c, set(e)))
        if holed:
            r.label("hole")
            if any(c[0] in e2 for (c, _) in holed for (c2, e2) in holed if c2 is not c):
                r.label("nested_hole")
    if H >= 2 and W >= 2 and ff.has_pinch(vals, valid):
        r.label("pinch")
    return lab, ncomp


def body_polygonize(case, ctx):
    import xarray as xr
    from xrspatial.experimental.polygonize import polygonize
    conn = case["conn"]
    a = S.apply_layout(dec_arr(case["raster"]), case.get("layout", "C"))
    H, W = a.shape
    dims = tuple(case.get("dims") or ("y", "x"))
    raster = xr.DataArray(a, dims=dims)
    mask = None
    vals = a.tolist()
    if case.get("mask") is not None:
        m = S.apply_layout(dec_arr(case["mask"]), case.get("mask_layout", "C"))
        mask = xr.DataArray(m, dims=dims)
        valid = [[bool(v) for v in row] for row in m.tolist()]
    else:
        valid = [[True] * W for _ in range(H)]
    r = R()
    r.label("conn=%d" % conn, "dtype=%s" % a.dtype, _shape_class(H, W),
            "mask=%s" % ("none" if mask is None else str(mask.dtype)))
    if "kind" in case:
        r.label("kind=" + case["kind"], "blank=" + case.get("blank", "none"), "layout=" + case.get("layout", "C"))
    lab, ncomp = _topology_labels(r, vals, valid, conn, H, W)

    col, polys = _guarded(ctx, case, lambda: polygonize(raster, mask=mask, connectivity=conn))
    for b, m_ in judge(col, polys, vals, valid, conn, lab=lab, ncomp=ncomp):
        r.fail(b, m_ + "\nraster=%s mask=%s" % (vals, None if mask is None else case["mask"]["data"]))
    if r.fails:
        return r

    if case.get("transform") is not None:
        t = case["transform"]
        r.label("transform")
        as_ = case.get("transform_as", "tuple")
        targ = tuple(t) if as_ == "tuple" else list(t) if as_ == "list" else np.array(t)
        col2, polys2 = _guarded(ctx, case, lambda: polygonize(raster, mask=mask, connectivity=conn, transform=targ))
        tf = [float(x) for x in t]
        if len(col2) != len(col) or any(not (x == y) for x, y in zip(col, col2)) or len(polys2) != len(polys) or \
                any(len(p) != len(q) for p, q in zip(polys, polys2)):
            return r.fail("poly.transform.structure", "transform changed the polygons' number/values: %r vs %r" % (col, col2))
        for k, (p, q) in enumerate(zip(polys, polys2)):
            for ri, (u, v) in enumerate(zip(p, q)):
                if u.shape != v.shape:
                    return r.fail("poly.transform.structure", "polygon %d ring %d: %s vs %s points" % (k, ri, u.shape, v.shape))
                ex = tf[0] * u[:, 0] + tf[1] * u[:, 1] + tf[2]
                ey = tf[3] * u[:, 0] + tf[4] * u[:, 1] + tf[5]
                sx = np.abs(tf[0] * u[:, 0]) + np.abs(tf[1] * u[:, 1]) + abs(tf[2]) + 1e-300
                sy = np.abs(tf[3] * u[:, 0]) + np.abs(tf[4] * u[:, 1]) + abs(tf[5]) + 1e-300
                badx = np.abs(v[:, 0] - ex) > 1e-9 * sx
                bady = np.abs(v[:, 1] - ey) > 1e-9 * sy
                if badx.any() or bady.any():
                    i = int(np.nonzero(badx | bady)[0][0])
                    which = "x" if badx[i] else "y"
                    return r.fail("poly.transform.vertex_%s%s" % (which, "" if ri == 0 else ".hole"),
                                  "transform %s: polygon %d ring %d vertex %d: untransformed %s -> got %s, expected (%r, %r)\nraster=%s mask=%s" % (
                                      t, k, ri, i, u[i].tolist(), v[i].tolist(), float(ex[i]), float(ey[i]), vals,
                                      None if mask is None else case["mask"]["data"]))
    return r


# ---------------------------------------------------------------- fixtures of tests/test_polygonize.py

def _fixture(name, dtype):
    if name == "2x2":
        return np.asarray([[0, 1], [1, 0]], dtype=dtype), None
    if name == "3x3":
        return np.asarray([[0, 0, 1], [0, 4, 0], [0, 0, 0]], dtype=dtype), None
    shape = (40, 50)
    rng = np.random.default_rng(28403)          # verbatim from the repository's fixture (seeded, deterministic)
    if np.issubdtype(np.dtype(dtype), np.integer):
        raster = rng.integers(low=0, high=2, size=shape, dtype=dtype)
    else:
        raster = rng.integers(low=0, high=2, size=shape).astype(dtype)
    rng = np.random.default_rng(384182)
    mask = rng.uniform(0, 1, size=shape) < 0.9
    return raster, mask


def body_fixture(case, ctx):
    """The repository's own expected outputs, used to validate the conventions of this oracle:
    value order, area sign (exterior > 0, holes < 0 with x = column 0, y = column 1), polygon counts."""
    import xarray as xr
    from xrspatial.experimental.polygonize import polygonize
    name, dtype, conn = case["name"], case["dtype"], case["conn"]
    a, m = _fixture(name, dtype)
    H, W = a.shape
    vals = a.tolist()
    valid = [[True] * W for _ in range(H)] if m is None else m.tolist()
    r = R(nt=True)
    r.label("fixture=" + name, "conn=%d" % conn)
    lab, ncomp = ff.components(vals, valid, conn)
    sizes = [0] * ncomp
    cval = [None] * ncomp
    for k, l in enumerate(lab):
        if l:
            sizes[l - 1] += 1
            cval[l - 1] = vals[k // W][k % W]
    # (1) the flood-fill oracle against the numbers written in the repository's tests
    if name == "2x2":
        exp = ([0, 1, 1, 0], [1, 1, 1, 1]) if conn == 4 else ([0, 1], [2, 2])
    elif name == "3x3":
        exp = ([0, 1, 4], [7, 1, 1])
    else:
        exp = None
    if exp is not None:
        if [float(v) for v in cval] != [float(v) for v in exp[0]] or sizes != exp[1]:
            r.fail("convention.oracle_vs_repo_tests", "flood fill gives values %s sizes %s; tests/test_polygonize.py expects %s %s" % (cval, sizes, exp[0], exp[1]))
    else:
        n0 = sum(1 for v in cval if v == 0)
        n1 = sum(1 for v in cval if v == 1)
        a0 = sum(s for s, v in zip(sizes, cval) if v == 0)
        a1 = sum(s for s, v in zip(sizes, cval) if v == 1)
        want = (170, 184, 922, 869) if conn == 4 else (23, 30, 922, 869)
        if (n0, n1, a0, a1) != want:
            r.fail("convention.oracle_vs_repo_tests", "flood fill gives counts/areas %s; tests/test_polygonize.py expects %s" % ((n0, n1, a0, a1), want))
    # (2) the code against the same numbers, using the test file's own area helper semantics
    col, polys = polygonize(xr.DataArray(a), mask=None if m is None else xr.DataArray(m), connectivity=conn)
    areas = []
    for rings in polys:
        s = 0.0
        for q, ring in enumerate(rings):
            ar = ff.shoelace(ring)
            if (q == 0 and not ar > 0) or (q > 0 and not ar < 0):
                r.fail("convention.sign", "ring %d signed area %r" % (q, ar))
            s += ar
        areas.append(s)
    if exp is not None:
        if [float(v) for v in col] != [float(v) for v in exp[0]] or not np.allclose(areas, exp[1]):
            r.fail("convention.code_vs_repo_tests", "polygonize gives values %s areas %s; expected %s %s" % (col, areas, exp[0], exp[1]))
    # (3) the full oracle on the fixture, and the general ray-cast against the scan-line rasteriser
    for b, msg in judge(col, polys, vals, valid, conn):
        r.fail(b, msg)
    for k, rings in enumerate(polys):
        for ring in rings:
            cells = ff.ring_cells(ring, H, W)
            pts = ring.tolist()
            if sorted(ff.pts_cells(pts, H, W)) != [int(x) for x in np.nonzero(cells.ravel())[0]] or \
                    abs(ff.pts_shoelace(pts) - ff.shoelace(ring)) > 1e-9 or ff.pts_closed(pts) != ff.ring_closed(ring) or \
                    ff.pts_on_corners(pts, H, W) != ff.ring_on_corners(ring, H, W) or ff.pts_axis_parallel(pts) != ff.ring_axis_parallel(ring):
                r.fail("convention.pts_vs_numpy", "ring %s" % pts)
            for i in range(H):
                for j in range(W):
                    if (i * 7 + j * 3 + k) % (1 if H * W <= 16 else 23) == 0:
                        if ff.point_in_ring(ring, j + 0.5, i + 0.5) != bool(cells[i, j]):
                            r.fail("convention.raycast_vs_scanline", "ring %s cell (%d,%d)" % (ring.tolist(), i, j))
    return r


BODIES = {"polygonize": body_polygonize, "fixture": body_fixture}


# ---------------------------------------------------------------- random cases

@st.composite
def poly_cases(draw, max_side, dtypes, mask_dtype, int_transform=False, layouts=("C",)):
    g, k, kind = draw(topo.topo_grid(max_side))
    h, w = len(g), len(g[0])
    dtype = draw(st.sampled_from(dtypes))
    pal = draw(st.lists(st.sampled_from(POOLS[dtype]), min_size=k, max_size=k, unique=True))
    data = [[pal[v] for v in row] for row in g]
    blank, mode = draw(topo.overlay(h, w, g, allow_all=True))
    mask = None
    if blank is not None:
        mask = {"dtype": mask_dtype, "data": [[0 if blank[i * w + j] else 1 for j in range(w)] for i in range(h)]}
    elif draw(st.integers(0, 5)) == 0:
        mask = {"dtype": mask_dtype, "data": [[1] * w for _ in range(h)]}
        mode = "all_ones"
    tr = None
    if draw(st.integers(0, 2)) == 0:
        if int_transform:
            tr = draw(st.one_of(st.sampled_from([t for t in TRANSFORMS if all(isinstance(x, int) for x in t)]),
                                st.lists(st.integers(-50, 50), min_size=6, max_size=6)))
        else:
            tr = draw(st.one_of(st.sampled_from(TRANSFORMS),
                                st.lists(st.floats(-100, 100, allow_nan=False, width=64), min_size=6, max_size=6),
                                st.tuples(st.floats(-100, 100), st.floats(-100, 100), st.floats(-1e6, 1e6),
                                          st.floats(-100, 100), st.floats(-100, 100), st.floats(-1e6, 1e6)).map(list)))
            tr = [float(x) for x in tr]
    case = {"sub": "polygonize", "raster": {"dtype": dtype, "data": data}, "conn": draw(st.sampled_from([4, 8])),
            "mask": mask, "transform": tr, "transform_as": draw(st.sampled_from(["tuple", "list", "ndarray"])),
            "kind": kind, "blank": mode, "layout": draw(st.sampled_from(list(layouts))),
            "mask_layout": draw(st.sampled_from(list(layouts))),
            "dims": draw(st.sampled_from([["y", "x"], ["dim_0", "dim_1"], ["lat", "lon"]]))}
    return case


# ---------------------------------------------------------------- enumerations

VARIANTS = {
    # name: (dtype, palette by digit ("M" = masked cell holding the value of digit 0), mask dtype)
    "bin_i64": ("int64", [0, 1], None),
    "bin_f64": ("float64", [0.5, -2.0], None),
    "ter_i32": ("int32", [0, 1, 2], None),
    "ter_mask_f32": ("float32", [1.0, 0.0, "M"], "bool"),
    "ter_mask_i64": ("int64", ["M", 3, -3], "int64"),
    "ter_f64": ("float64", [0.1, 0.2, 1000.0], None),
    "bin_u32": ("uint32", [4294967295, 0], None),
}


def enum_cases(variant, h, w, lo, hi):
    dtype, pal, mdt = VARIANTS[variant]
    base = len(pal)
    fill = [p for p in pal if p != "M"][0]
    for idx in range(lo, hi):
        d = topo.digits(idx, base, h * w)
        flat = [fill if pal[x] == "M" else pal[x] for x in d]
        data = [flat[i * w:(i + 1) * w] for i in range(h)]
        mask = None
        if mdt is not None:
            mf = [0 if pal[x] == "M" else 1 for x in d]
            mask = {"dtype": mdt, "data": [mf[i * w:(i + 1) * w] for i in range(h)]}
        for conn in (4, 8):
            yield {"sub": "polygonize", "raster": {"dtype": dtype, "data": data}, "mask": mask, "conn": conn,
                   "enum": [variant, h, w, idx]}


def _enum_shard(variant, chunks):
    def run(ctx):
        for (h, w, lo, hi) in chunks:
            drive_enum(ctx, body_polygonize, enum_cases(variant, h, w, lo, hi),
                       space="%s %dx%d [%d,%d) x {4,8}" % (variant, h, w, lo, hi), size=2 * (hi - lo))
            if ctx.violations or ctx.budget_exhausted:
                break
    return run


def fixture_cases():
    for name, dts in (("2x2", ["int64", "float64"]), ("3x3", ["int32", "int64", "uint32", "uint64", "float32", "float64"]),
                      ("big_masked", ["int64", "float64"])):
        for dt in dts:
            for conn in (4, 8):
                yield {"sub": "fixture", "name": name, "dtype": dt, "conn": conn}


def shards(tier):
    out = [("fixtures", lambda ctx: drive_enum(ctx, body_fixture, fixture_cases(), space="tests/test_polygonize.py fixtures", size=20))]
    if tier == "thorough":
        nrand, per, side = 20, 2000, 24
        plan = [("bin_i64", 20, 32), ("bin_f64", 16, 8), ("bin_u32", 12, 1), ("ter_i32", 10, 4), ("ter_mask_f32", 9, 2),
                ("ter_mask_i64", 9, 2), ("ter_f64", 9, 2)]
    else:
        nrand, per, side = 10, 400, 24
        plan = [("bin_i64", 12, 2), ("bin_f64", 12, 2), ("ter_i32", 9, 4), ("ter_mask_f32", 9, 4)]
    lay = ["F", "view", "C"]
    for i in range(nrand):
        dts = [DTYPES[i % len(DTYPES)]]       # one value dtype per shard: every (dtype, mask dtype, transform) signature costs ~2 s of JIT
        mdt = MASK_DTYPES[i % len(MASK_DTYPES)]
        layouts = ("C", "C", lay[i % 3])
        out.append(("rand#%d" % i, lambda ctx, dts=dts, mdt=mdt, layouts=layouts, it=(i % 4 == 3): drive_hypothesis(
            ctx, body_polygonize, poly_cases(side, dts, mdt, it, layouts), per, name="rand")))
    for variant, max_cells, k in plan:
        bins = topo.split_chunks(topo.enum_chunks(len(VARIANTS[variant][1]), max_cells, chunk=(1 << 14) if max_cells <= 12 else (1 << 16)), k)
        for i, b in enumerate(bins):
            if b:
                out.append(("enum_%s_le%d#%d" % (variant, max_cells, i), _enum_shard(variant, b)))
    return out


LEVEL_TEXT = ("Bounded-exhaustive plus randomised search: every 2-letter raster of every shape with <= 12 cells (quick) / <= 16 cells, one dtype <= 20 cells (thorough) and every "
              "3-letter raster (incl. 'masked' as a letter) with <= 9 cells (one variant <= 10 in thorough), both connectivities, plus thousands of random rasters up to 24x24 built from "
              "spiral / ring / comb / serpentine / checkerboard / diagonal / hole constructors over five dtypes, six mask dtypes and densities, affine "
              "transforms and layouts; every result is rasterised back (even-odd test of each cell centre) and compared with a flood-fill partition, "
              "ring orientation, corner/axis-parallel predicates and shoelace areas. Decides the property inside the enumerated spaces, samples it outside.")
LEVEL_NOTE = ("Assumes well-separated finite values and 0/1 masks; orientation/area conventions validated against the expected outputs in "
              "tests/test_polygonize.py by a dedicated shard; absence of violations beyond the enumerated sizes is sampled, not proven.")
TECHNIQUE = "property-based testing (Hypothesis, topology generators) + exhaustive small-raster enumeration against flood-fill + polygon re-rasterisation"
