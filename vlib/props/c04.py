"""C04 - crosstab is a true contingency table under any zone/category selection."""
import numpy as np
from hypothesis import strategies as st

from .. import strategies as S
from ..core import R, dec_arr, dec_list, dec_scalar, drive_hypothesis
from ..oracles import zonal as Z

PROP = "C04"
RULE = ("Generator: zones rasters (int32/int64/float32/float64 ids incl. negative and fractional, scattered per cell, NaN/+-inf zone cells) x "
        "2-D categorical values (small int/float alphabets, NaN/+-inf cells; zones/values independently C-/Fortran-ordered or strided views) x nodata {None, present value, absent value} x zone_ids / cat_ids "
        "(subsets, permutations, absent ids, or None) x agg {count, percentage}; 3-D values (layer dim at position 0/1/2 via `layer`) x seven "
        "aggregates (NumPy) / count (Dask); NumPy backend and Dask backend with a drawn chunking. Oracle: brute-force contingency table by mask "
        "arithmetic; restricted call must equal the unrestricted reference restricted to the requested rows/columns, rows matched by zone label. "
        "Non-trivial: a selection that skips a category present in a selected zone, or lists zone ids out of ascending order, or includes an absent id "
        "(2-D); a restricted or permuted selection (3-D). Distinct by SHA-1 of the case.")
ASSUMPTIONS = ["zone_ids / cat_ids contain no duplicates", "3-D min/max: every (zone, layer) has a valid cell (aggregate of an empty set undefined)",
               "percentage of a zone without valid cells: NaN or 0 accepted (statement speaks of non-empty rows)"]
BUDGET_S = {"quick": 150, "thorough": 1200}

ZONE_ALPH = {"int": [-2, 0, 1, 3, 8, 11], "float": [-1.5, 0.0, 0.25, 2.0, 3.0, 7.5],
             # large, nearly equal ids (parcel / catchment codes): equality must stay exact
             "bigint": [100000, 100001, 100002, 2500000, 2500001, -100001], "bigfloat": [100000.0, 100000.5, 100001.0, 1e7, 1e7 + 1]}
CAT_ALPH = {"int": [0, 1, 2, 5, 7, 9], "float": [0.0, 1.0, 2.5, 5.0, 7.0, -3.0]}


def _mk(case, key, backend, chunks):
    import xarray as xr
    a = S.apply_layout(dec_arr(case[key]), case.get(key + "_layout", "C"))
    if backend == "dask":
        import dask.array as da
        a = da.from_array(a, chunks=chunks)
    dims = case.get(key + "_dims") or (["y", "x"] if a.ndim == 2 else None)
    coords = {}
    if a.ndim == 3:
        coords = {case["layer_dim"]: dec_list(case["layer_labels"])}
    return xr.DataArray(a, dims=dims, coords=coords)


def _ids(x):
    return None if x is None else dec_list(x)


def _df_rows(df):
    """DataFrame -> (zone labels list, {zone: {col: value}}) ; index ignored."""
    zs = [float(z) for z in df["zone"].tolist()]
    cols = [c for c in df.columns if c != "zone"]
    rows = {}
    for i in range(len(df)):
        rows.setdefault(zs[i], []).append({c: df[c].iloc[i] for c in cols})
    return zs, cols, rows


def _call(case, zones, values, **kw):
    from xrspatial.zonal import crosstab
    res = crosstab(zones, values, **kw)
    if case.get("backend") == "dask":
        import dask
        import dask.dataframe as dd
        with dask.config.set(scheduler=case.get("scheduler", "synchronous")):
            res = res.compute() if hasattr(res, "compute") else res   # laziness of the table is not part of the statement
    return res


def _cmp_table(r, what, df, exp_rows, exp_cols, expect, tags, rtol=1e-9, atol=1e-9):
    """exp_rows: list of zone ids; exp_cols: list of cats; expect(z,c)->(value, alt or None)."""
    zs, cols, rows = _df_rows(df)
    if sorted(zs) != sorted(float(z) for z in exp_rows):
        return r.fail("%s.rows%s" % (what, tags), "zone labels %s, expected %s" % (zs, exp_rows))
    if sorted(float(c) for c in cols) != sorted(float(c) for c in exp_cols):
        return r.fail("%s.columns%s" % (what, tags), "columns %s, expected %s" % (cols, exp_cols))
    for z in exp_rows:
        got = rows[float(z)][0]
        for c in cols:
            exp, alt = expect(z, c)
            g = got[c]
            if not (Z.close(g, exp, rtol, atol) or (alt is not None and Z.close(g, alt, rtol, atol))):
                return r.fail("%s.value%s" % (what, tags), "zone %s cat %s: got %r expected %r\n%s" % (z, c, g, exp, df.to_string()))
    return r


def body_ct2d(case, ctx):
    backend = case.get("backend", "numpy")
    zc = tuple(tuple(c) for c in case["zchunks"]) if backend == "dask" else None
    zones = _mk(case, "zones", backend, zc)
    values = _mk(case, "values", backend, zc)   # same chunking: independent chunkings are C03's subject
    zn, vn = dec_arr(case["zones"]), dec_arr(case["values"])
    nodata = dec_scalar(case["nodata"])
    zone_ids, cat_ids = _ids(case["zone_ids"]), _ids(case["cat_ids"])
    agg = case["agg"]
    ids, cats, counts, totals = Z.ref_crosstab_2d(zn, vn, nodata)
    r = R()
    r.label("agg=" + agg, "backend=" + backend, "zdtype=" + str(zn.dtype), "vdtype=" + str(vn.dtype),
            "layouts=%s/%s" % (case.get("zones_layout", "C"), case.get("values_layout", "C")))
    if vn.dtype.kind == "f" and np.isneginf(vn).any():
        r.label("neg_inf_value")

    def expect(z, c):
        t = counts[z][c]
        if agg == "count":
            return float(t), None
        if totals[z] == 0:
            return float("nan"), 0.0
        return 100.0 * t / totals[z], None

    # unrestricted
    if backend == "dask" and not ids:
        return r  # dask path needs >= 1 zone (statement's proviso in C03)
    df = _call(case, zones, values, agg=agg, nodata_values=nodata)
    _cmp_table(r, "ct2d.unrestricted", df, ids, cats, expect, "")
    if agg == "percentage" and not r.fails:
        zs, cols, rows = _df_rows(df)
        for z in ids:
            if totals[z] > 0:
                s = sum(float(v) for v in rows[float(z)][0].values())
                if abs(s - 100.0) > 1e-6:
                    r.fail("ct2d.percentage.rowsum", "zone %s row sums to %r" % (z, s))
    if zone_ids is None and cat_ids is None:
        return r
    # restricted
    sel_z = ids if zone_ids is None else [z for z in ids if z in set(zone_ids)]
    sel_c = cats if cat_ids is None else [c for c in cats if c in set(cat_ids)]
    if backend == "dask" and (not sel_z):
        return r
    skipped = cat_ids is not None and any(c not in set(cat_ids) and any(counts[z][c] for z in sel_z) for c in cats)
    unsorted_z = zone_ids is not None and [z for z in zone_ids if z in set(ids)] != sorted(z for z in zone_ids if z in set(ids))
    absent = (zone_ids is not None and any(z not in set(ids) for z in zone_ids)) or \
             (cat_ids is not None and any(c not in set(cats) for c in cat_ids))
    r.nt = bool(skipped or unsorted_z or absent)
    if skipped:
        r.label("cat_skipped")
    if unsorted_z:
        r.label("zone_ids_unsorted")
    if absent:
        r.label("absent_id")
    if cat_ids is not None and list(cat_ids) != sorted(cat_ids):
        r.label("cat_ids_unsorted")
    kw = {}
    if zone_ids is not None:
        kw["zone_ids"] = list(zone_ids)
    if cat_ids is not None:
        kw["cat_ids"] = list(cat_ids)
    df2 = _call(case, zones, values, agg=agg, nodata_values=nodata, **kw)
    tags = "[cat_skipped=%d,zones_unsorted=%d]" % (skipped, unsorted_z)
    _cmp_table(r, "ct2d.restricted", df2, sel_z, sel_c, expect, tags)
    return r


def body_ct3d(case, ctx):
    backend = case.get("backend", "numpy")
    zn, vn = dec_arr(case["zones"]), dec_arr(case["values"])
    layer = case["layer"]
    labels = dec_list(case["layer_labels"])
    v3 = np.moveaxis(vn, layer, 0)
    nodata = dec_scalar(case["nodata"])
    agg = case["agg"]
    zone_ids, cat_ids = _ids(case["zone_ids"]), _ids(case["cat_ids"])
    zc = tuple(tuple(c) for c in case["zchunks"]) if backend == "dask" else None
    zones = _mk(case, "zones", backend, zc)
    vchunks = None
    if backend == "dask":
        vch = [tuple(c) for c in case["zchunks"]]
        vch.insert(layer, (len(labels),))
        vchunks = tuple(vch)
    values = _mk(case, "values", backend, vchunks)
    ids, table = Z.ref_crosstab_3d(zn, v3, labels, nodata, agg)
    r = R()
    r.label("agg=" + agg, "backend=" + backend, "layer=%d" % layer)
    if backend == "dask" and not ids:
        return r
    sel_z = ids if zone_ids is None else [z for z in ids if z in set(zone_ids)]
    sel_c = labels if cat_ids is None else [c for c in labels if c in set(cat_ids)]
    if backend == "dask" and not sel_z:
        return r
    unsorted_z = zone_ids is not None and [z for z in zone_ids if z in set(ids)] != sorted(z for z in zone_ids if z in set(ids))
    r.nt = (zone_ids is not None or cat_ids is not None) and len(ids) >= 2
    kw = {}
    if zone_ids is not None:
        kw["zone_ids"] = list(zone_ids)
    if cat_ids is not None:
        kw["cat_ids"] = list(cat_ids)
    if layer != 0 or case.get("explicit_layer"):
        kw["layer"] = layer
    df = _call(case, zones, values, agg=agg, nodata_values=nodata, **kw)
    tags = "[%s,zones_unsorted=%d,cat_subset=%d]" % (agg if agg in ("count",) else "stat", unsorted_z, cat_ids is not None)
    rtol = atol = 1e-9
    if vn.dtype == np.float32 and agg in ("mean", "sum", "std", "var"):
        # the aggregate is computed by NumPy in the values' own precision (float32)
        rtol = 1e-5
        atol = 1e-5 * (1.0 + float(np.nanmax(np.abs(np.where(np.isfinite(vn), vn, 0)))) ** 2)
    _cmp_table(r, "ct3d", df, sel_z, sel_c, lambda z, c: (table[z][c], None), tags, rtol, atol)
    return r


BODIES = {"ct2d": body_ct2d, "ct3d": body_ct3d}


# ------------------------------------------------------------------ strategies

@st.composite
def zone_grid(draw, h, w):
    kind = draw(st.sampled_from(["int", "int", "float"]))
    dtype = draw(st.sampled_from(["int32", "int64"])) if kind == "int" else draw(st.sampled_from(["float64", "float32"]))
    nz = draw(st.integers(1, 5))
    big = draw(st.integers(0, 5)) == 0
    if big and kind == "float":
        dtype = "float64"
    alph = draw(st.permutations(ZONE_ALPH[("big" + kind) if big else kind]))[:nz]
    specials = ["nan", "inf", "-inf"] if kind == "float" else []
    data = draw(S.grid(h, w, alph, specials=specials))
    return {"dtype": dtype, "data": data}, kind


@st.composite
def backend_bits(draw, h, w, frac_dask=6):
    if draw(st.integers(0, frac_dask - 1)) == 0:
        return {"backend": "dask", "zchunks": [draw(S.chunking(h)), draw(S.chunking(w))],
                "scheduler": draw(st.sampled_from(["synchronous", "threads"]))}
    return {"backend": "numpy"}


def _present(spec):
    out = []
    for row in spec["data"]:
        for v in row:
            if not isinstance(v, str) and v not in out:
                out.append(v)
    return out


@st.composite
def ct2d_cases(draw, max_side):
    h, w = draw(S.shapes(1, max_side))
    zones, zkind = draw(zone_grid(h, w))
    ckind = draw(st.sampled_from(["int", "float"]))
    vdtype = draw(st.sampled_from(["int32", "int64", "uint8"])) if ckind == "int" else draw(st.sampled_from(["float64", "float32"]))
    nc = draw(st.integers(1, 6))
    calph = draw(st.permutations([c for c in CAT_ALPH[ckind] if not (vdtype == "uint8" and c < 0)]))[:nc]
    if vdtype in ("int32", "int64", "float64") and draw(st.integers(0, 5)) == 0:
        # large, nearly equal category codes: a category next to the nodata value is still a category
        calph = draw(st.permutations([100000, 100001, 100002, 99999, 2500000, 2500001] if ckind == "int" else
                                     [100000.0, 100000.5, 100001.0, 1e7, 1e7 + 1, 4e-9, 0.0]))[:nc]
    vdata = draw(S.grid(h, w, calph, specials=["nan", "inf", "-inf"] if ckind == "float" else []))
    values = {"dtype": vdtype, "data": vdata}
    nodata = draw(st.sampled_from([None, None, calph[0], 99]))
    zpres = _present(zones)
    cpres = [c for c in _present(values) if c != nodata]
    zone_ids = cat_ids = None
    mode = draw(st.sampled_from(["none", "z", "c", "zc", "zc"]))
    if "z" in mode and zpres:
        zone_ids = draw(S.id_list(zpres, extra=[77, zpres[0] + 0.5, -0.5] if zkind == "int" else [77.5, zpres[0] + 1e-7], dtype=zones["dtype"]))
    if "c" in mode and cpres:
        cat_ids = draw(S.id_list(cpres, extra=[42, cpres[0] + 0.5] if ckind == "int" else [42.5, cpres[0] + 1e-7], dtype=vdtype))
    case = {"sub": "ct2d", "zones": zones, "values": values, "nodata": nodata, "zone_ids": zone_ids, "cat_ids": cat_ids,
            "agg": draw(st.sampled_from(["count", "percentage"])),
            "zones_layout": draw(st.sampled_from(["C", "C", "F", "view"])), "values_layout": draw(st.sampled_from(["C", "C", "F", "view"]))}
    case.update(draw(backend_bits(h, w)))
    return case


@st.composite
def ct3d_cases(draw, max_side):
    h, w = draw(S.shapes(1, max_side))
    zones, zkind = draw(zone_grid(h, w))
    L = draw(st.integers(1, 4))
    labels = draw(st.sampled_from([[10, 20, 30, 40], [3, 1, 2, 0], [0.5, 1.5, 2.5, 3.5]]))[:L]
    case = {"sub": "ct3d"}
    case.update(draw(backend_bits(h, w)))
    agg = "count" if case["backend"] == "dask" else draw(st.sampled_from(Z.STAT_NAMES))
    vdtype = draw(st.sampled_from(["float64", "float32", "int32"]))
    pal = [0, 1, 2, 3, 4, 7]
    specials = ["nan", "-inf", "inf"] if (vdtype.startswith("float") and agg not in ("min", "max")) else []
    layers = [draw(S.grid(h, w, pal, specials=specials)) for _ in range(L)]
    nodata = None if agg in ("min", "max") else draw(st.sampled_from([None, 0, 99]))
    layer = draw(st.integers(0, 2))
    arr = np.array([[[0 if isinstance(v, str) else v for v in row] for row in lay] for lay in layers])
    # store in the requested axis order (nested lists with specials preserved)
    nested = layers  # (L,H,W)
    if layer == 1:    # (H,L,W)
        nested = [[layers[l][i] for l in range(L)] for i in range(h)]
    elif layer == 2:  # (H,W,L)
        nested = [[[layers[l][i][j] for l in range(L)] for j in range(w)] for i in range(h)]
    dims = ["y", "x"]
    dims.insert(layer, "cat")
    zpres = _present(zones)
    zone_ids = cat_ids = None
    mode = draw(st.sampled_from(["none", "z", "c", "zc"]))
    if "z" in mode and zpres:
        zone_ids = draw(S.id_list(zpres, extra=[77]))
    if "c" in mode:
        cat_ids = draw(S.id_list(labels, extra=[999]))
    case.update({"zones": zones, "values": {"dtype": vdtype, "data": nested}, "values_dims": dims, "layer_dim": "cat",
                 "layer_labels": labels, "layer": layer, "explicit_layer": draw(st.booleans()), "nodata": nodata,
                 "zone_ids": zone_ids, "cat_ids": cat_ids, "agg": agg})
    return case


def shards(tier):
    n2, n3, per2, per3, side = (10, 4, 220, 160, 7) if tier == "quick" else (12, 4, 1200, 900, 10)
    out = []
    for i in range(n2):
        out.append(("ct2d#%d" % i, lambda ctx: drive_hypothesis(ctx, body_ct2d, ct2d_cases(side), per2)))
    for i in range(n3):
        out.append(("ct3d#%d" % i, lambda ctx: drive_hypothesis(ctx, body_ct3d, ct3d_cases(side), per3)))
    return out


LEVEL_TEXT = ("Randomised search (Hypothesis, thousands of cases per run) over zones/values/nodata/selection lists on both backends, each compared "
              "entry by entry with a brute-force contingency table and with the restriction metamorphic relation (rows matched by zone label).")
LEVEL_NOTE = "Sampled, not exhaustive; oracle is NumPy mask arithmetic in float64; tolerances 1e-9 (counts exact)."
TECHNIQUE = "property-based testing (Hypothesis) with a brute-force reference table and a restriction metamorphic relation"
