"""C14 - A* returns a valid, shortest path between the cells the caller named.

Oracle: Dijkstra (unit / sqrt2 steps, same neighbourhood, corner cutting allowed as in the function) on the
crossable mask + chain validity of the returned raster; expected cells are the nearest cell centres of the
start/goal points (computed from the coordinate arrays, never from the implementation); snapping accepts any
crossable cell at minimum index-space distance (square cells only).
"""
import functools
import heapq
import math

import numpy as np
from hypothesis import strategies as st

from .. import strategies as S
from ..core import R, dec_arr, dec_list, drive_enum, drive_hypothesis

PROP = "C14"
RULE = ("Generator: surfaces <= 12 a side (float64/float32/int64; barrier value sets [0], [0,2], [], [0.0,-1.5], [-1]; NaN cells), three layout "
        "kinds (random with ~10/20/30/50 % blocked cells, walls with one gap each incl. serpentines, spiral corridors; mazes perturbed by <= 2 "
        "flipped cells), size classes 1-3 / 2-6 / 7-12 plus a 'big' profile (both sides 6-12, sparse obstacles, goal often the farthest "
        "reachable cell), connectivity 4/8, y/x coordinates ascending/descending with step in {1,0.1,0.3,0.7,1/3,2.5} and offset in "
        "{0,10.7,-3.3,100,1e6}, square and non-square cells, res attribute absent/tuple/list/scalar (always present on 1xN / Nx1), start/goal "
        "given as the cell's own coordinates or as off-centre points (|offset| <= 0.48 cell, incl. beyond the outermost centre), "
        "tuple/list/ndarray/NumPy-scalar points, dims y/x or lat/lon, snap_start/snap_goal on/off with end points on crossable or blocked "
        "cells. Exhaustive families: (a) every blocked-cell layout x every ordered (start, goal) pair x both connectivities (snap off, plus "
        "snap switched on for every blocked end) on the listed grids, coordinate class cycled over 12 step/offset/direction/res/off-centre "
        "variants; (b) 'own coordinates': every (step, offset, direction) axis class x axis length {2,3,7,12} x every cell index x res "
        "none/tuple/scalar, exact and 0.48-cell off-centre; (c) the only crossable cell in the corner opposite a blocked, snapped end; (d) a 6x6 "
        "(quick) / 8x8 (thorough) surface blocked except for two cells x every snapped blocked cell (nearest cell up to 7 cells away); (e) 14x24 "
        "(thorough also 16x30) surfaces with one wall pierced by two gaps x every goal behind the wall x every start before it (long detours "
        "whose two candidate routes differ by as little as 0.07). "
        "Oracle: Dijkstra + chain validity (module docstring). Non-trivial: a route exists between the (possibly snapped) ends AND (the "
        "optimal route is longer than the obstacle-free distance [detour], or a coordinate step is fractional, or snapping moved an end "
        "point); distinct by SHA-1 of the case (random) or enumeration index (exhaustive).")
ASSUMPTIONS = ["surface is 2-D with two regularly spaced dimension coordinates; a 1xN / Nx1 surface carries a 'res' attribute "
               "(no cell size is defined otherwise: calc_res divides by n-1)",
               "a 'res' attribute, when present, equals the coordinate spacing (x, y)",
               "start/goal points lie within half a cell of a cell centre of the surface and strictly nearest to one centre (margin >= 0.02 cell)",
               "snapping is only exercised on square cells (index-space and coordinate-space nearest agree); ties between equally near "
               "crossable cells may be resolved either way",
               "barriers is a homogeneous list of numbers"]
BUDGET_S = {"quick": 300, "thorough": 1500}

STEPS = [1.0, 0.1, 0.3, 0.7, 1.0 / 3.0, 2.5]
OFFSETS = [0.0, 10.7, -3.3, 100.0, 1e6]
FRACS = [-0.48, -0.4, -0.25, -0.1, 0.1, 0.25, 0.4, 0.48]
TOL = 1e-9

# barrier-set name -> (barriers list, blocked tokens (float surfaces), blocked tokens (int surfaces), crossable tokens float, crossable tokens int)
BSETS = {
    "b0": ([0], [0, "nan"], [0], [1, 2, 3], [1, 2, 3]),
    "b02": ([0, 2], [0, 2, "nan"], [0, 2], [1, 3, 5], [1, 3, 5]),
    "none": ([], ["nan"], [], [0, 1, 2], [0, 1, 2]),
    "bf": ([0.0, -1.5], [0.0, -1.5, "nan"], [0], [1, 2.5], [1, 2]),
    "bneg": ([-1], [-1, "nan"], [-1], [0, 1, 7], [0, 1, 7]),
}


# ------------------------------------------------------------------ oracle

def _nbrs(conn):
    nb = [(0, 1), (1, 0), (0, -1), (-1, 0)]
    if conn == 8:
        nb += [(1, 1), (1, -1), (-1, 1), (-1, -1)]
    return nb


@functools.lru_cache(maxsize=8192)
def _dijkstra_cached(key, h, w, conn, s):
    cross = np.frombuffer(key, dtype=np.bool_).reshape(h, w)
    D = [[math.inf] * w for _ in range(h)]
    if not cross[s]:
        return D
    D[s[0]][s[1]] = 0.0
    pq = [(0.0, s)]
    nb = [(dy, dx, math.hypot(dy, dx)) for dy, dx in _nbrs(conn)]
    while pq:
        d, (y, x) = heapq.heappop(pq)
        if d > D[y][x]:
            continue
        for dy, dx, l in nb:
            yy, xx = y + dy, x + dx
            if 0 <= yy < h and 0 <= xx < w and cross[yy, xx]:
                nd = d + l
                if nd < D[yy][xx] - 1e-12:
                    D[yy][xx] = nd
                    heapq.heappush(pq, (nd, (yy, xx)))
    return D


def dijkstra(cross, s, conn):
    h, w = cross.shape
    return _dijkstra_cached(np.ascontiguousarray(cross).tobytes(), h, w, conn, (int(s[0]), int(s[1])))


def free_distance(s, g, conn):
    dy, dx = abs(s[0] - g[0]), abs(s[1] - g[1])
    if conn == 4:
        return float(dy + dx)
    return max(dy, dx) + (math.sqrt(2.0) - 1.0) * min(dy, dx)


def nearest_crossable(cross, req):
    """All crossable cells at minimum index-space distance from req, and that squared distance."""
    ys, xs = np.nonzero(cross)
    if len(ys) == 0:
        return [], None
    d2 = (ys - req[0]) ** 2 + (xs - req[1]) ** 2
    m = int(d2.min())
    return [(int(y), int(x)) for y, x, d in zip(ys, xs, d2) if d == m], m


def nearest_index(coords, p):
    """Index of the coordinate nearest to p and the margin (in cells) to the runner-up."""
    d = np.abs(np.asarray(coords, dtype="float64") - p)
    i = int(np.argmin(d))
    if len(d) == 1:
        return i, math.inf
    ds = np.sort(d)
    step = abs(coords[1] - coords[0])
    return i, (ds[1] - ds[0]) / step


def decide(out, cross, S_c, G_c, conn):
    """Compare a result raster with the oracle.  S_c / G_c: acceptable start / goal cells (empty list = the end
    cannot be placed on a crossable cell).  Returns None or (kind, message)."""
    h, w = cross.shape
    if out.shape != cross.shape:
        return "shape", "result shape %s != surface shape %s" % (out.shape, cross.shape)
    cells = [(int(y), int(x)) for y, x in np.argwhere(~np.isnan(out))]
    pairs = [(s, g) for s in S_c for g in G_c if cross[s] and cross[g]]
    routes = [(s, g) for (s, g) in pairs if math.isfinite(dijkstra(cross, s, conn)[g[0]][g[1]])]
    all_nan_ok = (len(routes) < len(S_c) * len(G_c)) or not S_c or not G_c
    if not cells:
        if all_nan_ok:
            return None
        return "route_missing", "every cell NaN although a route of crossable cells joins start %s and goal %s" % (S_c, G_c)
    if not routes:
        why = "an end point is not crossable" if not pairs else "no route joins the ends"
        return "not_all_nan", "%s, expected every cell NaN, got %d path cells %s" % (why, len(cells), cells[:6])
    vals = sorted((float(out[c]), c) for c in cells)
    s1, g1 = vals[0][1], vals[-1][1]
    if s1 not in S_c:
        return "start_cell", "chain starts at %s (value %r), expected start cell in %s" % (s1, vals[0][0], S_c)
    if g1 not in G_c:
        return "goal_cell", "chain ends at %s, expected goal cell in %s" % (g1, G_c)
    if vals[0][0] != 0.0:
        return "start_value", "start cell %s has value %r, expected exactly 0" % (s1, vals[0][0])
    for v, c in vals:
        if not cross[c]:
            return "enters_uncrossable", "path cell %s (value %r) is a barrier/NaN cell" % (c, v)
    for (v0, (y0, x0)), (v1, (y1, x1)) in zip(vals[:-1], vals[1:]):
        dy, dx = abs(y1 - y0), abs(x1 - x0)
        if max(dy, dx) != 1 or (conn == 4 and dy + dx != 1):
            return "nonadjacent_step", "cells %s (%.6f) and %s (%.6f) follow each other but are not %d-neighbours" % (
                (y0, x0), v0, (y1, x1), v1, conn)
        if abs((v1 - v0) - math.hypot(dy, dx)) > TOL:
            return "step_length", "step %s -> %s adds %r, expected %r" % ((y0, x0), (y1, x1), v1 - v0, math.hypot(dy, dx))
    best = dijkstra(cross, s1, conn)[g1[0]][g1[1]]
    if vals[-1][0] > best + TOL:
        return "not_shortest", "goal value %r exceeds the minimum over all routes %r (start %s goal %s, %d-conn)" % (
            vals[-1][0], best, s1, g1, conn)
    if vals[-1][0] < best - TOL:
        return "below_minimum", "goal value %r below the Dijkstra minimum %r" % (vals[-1][0], best)
    return None


# ------------------------------------------------------------------ body

def _axis(spec):
    return S.mk_axis(spec)


def _res_attr(mode, xstep, ystep):
    if mode == "tuple":
        return {"res": (float(xstep), float(ystep))}
    if mode == "list":
        return {"res": [float(xstep), float(ystep)]}
    if mode == "scalar":
        return {"res": float(xstep)}
    return {}


def _point(ys, xs, cell, frac, yspec, xspec, form):
    py = float(ys[cell[0]]) if frac[0] == 0 else float(ys[cell[0]] + frac[0] * yspec["step"])
    px = float(xs[cell[1]]) if frac[1] == 0 else float(xs[cell[1]] + frac[1] * xspec["step"])
    if form == "list":
        return [py, px]
    if form == "ndarray":
        return np.array([py, px])
    if form == "npscalar":
        return (ys[cell[0]] if frac[0] == 0 else np.float64(py), xs[cell[1]] if frac[1] == 0 else np.float64(px))
    return (py, px)


def _call(a, barriers, yspec, xspec, res_mode, dims, start, goal, conn, snap_s, snap_g):
    import xarray as xr
    from xrspatial import a_star_search
    ys, xs = _axis(yspec), _axis(xspec)
    ras = xr.DataArray(a, dims=dims, coords={dims[0]: ys, dims[1]: xs}, attrs=_res_attr(res_mode, xspec["step"], yspec["step"]))
    kw = {}
    if snap_s is not None:
        kw["snap_start"] = snap_s
    if snap_g is not None:
        kw["snap_goal"] = snap_g
    if dims == ["y", "x"] or tuple(dims) == ("y", "x"):
        out = a_star_search(ras, start, goal, barriers=barriers, connectivity=conn, **kw)
    else:
        out = a_star_search(ras, start, goal, barriers, dims[1], dims[0], connectivity=conn, **kw)
    return np.asarray(out.data, dtype="float64"), out


def _step_name(step):
    return "1/3" if abs(step - 1.0 / 3.0) < 1e-12 else "%g" % step


def body_astar(case, ctx):
    a = dec_arr(case["surface"])
    h, w = a.shape
    barriers = dec_list(case["barriers"])
    yspec, xspec = case["y"], case["x"]
    conn = case["conn"]
    snap_s, snap_g = bool(case.get("snap_start", False)), bool(case.get("snap_goal", False))
    res_mode = case.get("res", "none")
    dims = list(case.get("dims", ["y", "x"]))
    form = case.get("ptform", "tuple")
    s_req, g_req = tuple(case["s"]), tuple(case["g"])
    s_fr, g_fr = case.get("s_off", [0, 0]), case.get("g_off", [0, 0])
    r = R()

    # ---- domain (by construction; a case outside it is a generator bug, counted as ambiguous, never a verdict)
    if (h == 1 or w == 1) and res_mode == "none":
        r.amb += 1
        return r
    square = yspec["step"] == xspec["step"]
    if (snap_s or snap_g) and not square:
        r.amb += 1
        return r
    if res_mode == "scalar" and not square:
        r.amb += 1
        return r

    ys, xs = _axis(yspec), _axis(xspec)
    start = _point(ys, xs, s_req, s_fr, yspec, xspec, form)
    goal = _point(ys, xs, g_req, g_fr, yspec, xspec, form)
    # expected cells: nearest centre, from the coordinate arrays
    exp = []
    for p in (start, goal):
        iy, my = nearest_index(ys, float(p[0]))
        ix, mx = nearest_index(xs, float(p[1]))
        if min(my, mx) < 0.02:
            r.amb += 1
            return r
        exp.append((iy, ix))
    s_exp, g_exp = exp
    if s_exp != s_req or g_exp != g_req:  # construction and oracle disagree: generator bug
        r.amb += 1
        return r

    cross = ~np.isnan(a) if a.dtype.kind == "f" else np.ones(a.shape, bool)
    for b in barriers:
        cross &= (a != b)

    diag2 = (h - 1) ** 2 + (w - 1) ** 2
    moved = []
    at_diag = False
    S_c, G_c = [s_exp], [g_exp]
    if not cross[s_exp]:
        if snap_s:
            S_c, m = nearest_crossable(cross, s_exp)
            moved.append("start")
            at_diag |= bool(S_c) and m == diag2
        else:
            S_c = []
    if not cross[g_exp]:
        if snap_g:
            G_c, m = nearest_crossable(cross, g_exp)
            moved.append("goal")
            at_diag |= bool(G_c) and m == diag2
        else:
            G_c = []

    routes = [(s, g) for s in S_c for g in G_c if math.isfinite(dijkstra(cross, s, conn)[g[0]][g[1]])]
    detour = any(dijkstra(cross, s, conn)[g[0]][g[1]] > free_distance(s, g, conn) + TOL for s, g in routes)
    fractional = (yspec["step"] != round(yspec["step"])) or (xspec["step"] != round(xspec["step"]))
    exact = (list(s_fr) == [0, 0] and list(g_fr) == [0, 0])
    canonical = (exact and yspec["step"] == 1 and xspec["step"] == 1 and yspec["start"] == 0 and xspec["start"] == 0
                 and not yspec.get("desc") and not xspec.get("desc"))
    r.nt = bool(routes) and (detour or fractional or bool(moved and (S_c and G_c)))

    # ---- labels
    r.label("conn=%d" % conn, "ystep=" + _step_name(yspec["step"]), "xstep=" + _step_name(xspec["step"]),
            "pt=" + ("exact" if exact else "offcentre"), "res=" + res_mode, "ptform=" + form,
            "route=" + ("yes" if routes else "no"), "dtype=" + str(a.dtype), "kind=" + case.get("kind", "?"),
            "side=" + ("1-3" if max(h, w) <= 3 else "4-6" if max(h, w) <= 6 else "7-12"))
    if detour:
        r.label("detour")
    if fractional:
        r.label("fractional_step")
    if yspec.get("desc"):
        r.label("y_desc")
    if xspec.get("desc"):
        r.label("x_desc")
    if yspec["start"] != 0 or xspec["start"] != 0:
        r.label("offset")
    if not square:
        r.label("nonsquare_cells")
    if h == 1 or w == 1:
        r.label("one_wide")
    if snap_s or snap_g:
        r.label("snap_on")
    if moved:
        r.label("snap_moved", "snap_tie" if (len(S_c) > 1 or len(G_c) > 1) else "snap_unique")
        if at_diag:
            r.label("snap_at_raster_diagonal")
    if (not cross[s_exp] and not snap_s) or (not cross[g_exp] and not snap_g):
        r.label("blocked_end_no_snap")
    if s_exp == g_exp:
        r.label("start==goal")
    if a.dtype.kind == "f" and np.isnan(a).any():
        r.label("nan_cells")
    if not exact and any((c == 0 and f < 0) or (c == n - 1 and f > 0)
                         for c, f, n in ((s_req[0], s_fr[0], h), (s_req[1], s_fr[1], w), (g_req[0], g_fr[0], h), (g_req[1], g_fr[1], w))):
        r.label("pt_beyond_outer_centre")
    if dims != ["y", "x"]:
        r.label("dims=lat/lon")
    if routes and not detour and not fractional and not moved:
        r.label("route_straight_integer")
    if case.get("kind") in ("random", "walls", "spiral"):  # distribution of the random part alone
        r.label("rnd:n", "rnd:route=" + ("yes" if routes else "no"))
        if detour:
            r.label("rnd:detour")
            if conn == 8:
                r.label("rnd:detour&conn8")
        if moved and S_c and G_c:
            r.label("rnd:snap_moved")
        if fractional:
            r.label("rnd:fractional_step")
        if not exact:
            r.label("rnd:offcentre")
        if min(h, w) >= 6:
            r.label("rnd:both_sides>=6")
        if routes:
            L = max(dijkstra(cross, s_, conn)[g_[0]][g_[1]] for s_, g_ in routes)
            r.label("rnd:route_len" + ("<3" if L < 3 else "3-6" if L < 6 else "6-12" if L < 12 else ">=12"))

    # ---- the call under test
    kw_s = snap_s if (snap_s or case.get("explicit_flags", True)) else None
    kw_g = snap_g if (snap_g or case.get("explicit_flags", True)) else None
    out, out_da = _call(a, barriers, yspec, xspec, res_mode, dims, start, goal, conn, kw_s, kw_g)
    f = decide(out, cross, S_c, G_c, conn)
    if f is None:
        return r
    kind, msg = f
    ctxmsg = "%s\n[%dx%d conn=%d start=%r->cell %s goal=%r->cell %s snap=(%s,%s) ysteps=%s xsteps=%s res=%s]\nresult=%s" % (
        msg, h, w, conn, start, s_exp, goal, g_exp, snap_s, snap_g, yspec, xspec, res_mode, np.array2string(out, precision=4))

    # ---- root-cause diagnosis by re-running a simplified companion input (bucketing only, never the verdict)
    can_y = {"start": 0.0, "step": 1.0, "desc": False, "n": h}
    can_x = {"start": 0.0, "step": 1.0, "desc": False, "n": w}
    can_res = "tuple" if (h == 1 or w == 1) else "none"
    if not canonical or res_mode != can_res:
        yc, xc = _axis(can_y), _axis(can_x)
        out2, _ = _call(a, barriers, can_y, can_x, can_res, ["y", "x"], (float(yc[s_exp[0]]), float(xc[s_exp[1]])),
                        (float(yc[g_exp[0]]), float(xc[g_exp[1]])), conn, snap_s, snap_g)
        if decide(out2, cross, S_c, G_c, conn) is None:
            which = "own_coordinate" if exact else "offcentre_point"
            return r.fail("coord_to_cell.%s_denotes_other_cell" % which,
                          "same surface, same cells, index coordinates: correct; with these coordinates: " + ctxmsg)
    if moved:
        ok_all = True
        yc, xc = _axis(can_y), _axis(can_x)
        for s in (S_c or [s_exp])[:4]:
            for g in (G_c or [g_exp])[:4]:
                out3, _ = _call(a, barriers, can_y, can_x, can_res, ["y", "x"], (float(yc[s[0]]), float(xc[s[1]])),
                                (float(yc[g[0]]), float(xc[g[1]])), conn, False, False)
                ok_all &= decide(out3, cross, [s] if cross[s] else [], [g] if cross[g] else [], conn) is None
        if ok_all:
            if kind == "route_missing":
                pred = "nearest_missed_at_raster_diagonal" if at_diag else "nearest_crossable_missed"
            elif kind in ("start_cell", "goal_cell"):
                pred = "not_the_nearest_crossable_cell"
            else:
                pred = kind
            return r.fail("snap." + pred, "naming the snapped cells directly (snap off): correct; with snapping: " + ctxmsg)
    return r.fail("path." + kind, ctxmsg)


BODIES = {"astar": body_astar}


# ------------------------------------------------------------------ layouts

def spiral_open(h, w):
    """Open mask of a one-cell-wide spiral corridor from (0,0) inwards; also the carve order."""
    op = np.zeros((h, w), bool)
    dirs = [(0, 1), (1, 0), (0, -1), (-1, 0)]
    r = c = d = 0
    op[0, 0] = True
    order = [(0, 0)]
    while True:
        moved = False
        for _ in range(2):
            dr, dc = dirs[d]
            nr, nc, n2r, n2c = r + dr, c + dc, r + 2 * dr, c + 2 * dc
            if 0 <= nr < h and 0 <= nc < w and not op[nr, nc] and not (0 <= n2r < h and 0 <= n2c < w and op[n2r, n2c]):
                r, c = nr, nc
                op[r, c] = True
                order.append((r, c))
                moved = True
                break
            d = (d + 1) % 4
        if not moved:
            break
    return op, order


def walls_open(h, w, by_rows, gaps):
    op = np.ones((h, w), bool)
    if by_rows:
        for k, rr in enumerate(range(1, h, 2)):
            op[rr, :] = False
            op[rr, gaps[k % len(gaps)] % w] = True
    else:
        for k, cc in enumerate(range(1, w, 2)):
            op[:, cc] = False
            op[gaps[k % len(gaps)] % h, cc] = True
    return op


def _tokens_from_mask(op, bset, is_float, block_mode):
    _, blk_f, blk_i, cr_f, cr_i = BSETS[bset]
    blk = blk_f if is_float else blk_i
    crs = cr_f if is_float else cr_i
    h, w = op.shape
    data = []
    for i in range(h):
        row = []
        for j in range(w):
            if op[i, j] or not blk:
                row.append(crs[(i * 3 + j) % len(crs)])
            elif block_mode == "first":
                row.append(blk[0])
            elif block_mode == "last":
                row.append(blk[-1])
            else:
                row.append(blk[(i + 2 * j) % len(blk)])
        data.append(row)
    return data


def _is_blocked_token(tok, barriers):
    if tok == "nan":
        return True
    return any(tok == b for b in barriers)


# ------------------------------------------------------------------ strategies

@st.composite
def coord_specs(draw, h, w, square):
    ystep = draw(st.sampled_from(STEPS))
    xstep = ystep if square else draw(st.sampled_from(STEPS))
    y = {"start": draw(st.sampled_from(OFFSETS)), "step": ystep, "desc": draw(st.booleans()), "n": h}
    x = {"start": draw(st.sampled_from(OFFSETS)), "step": xstep, "desc": draw(st.booleans()), "n": w}
    modes = ["tuple", "list"] + (["scalar"] if ystep == xstep else [])
    if h > 1 and w > 1:
        modes = ["none", "none", "none"] + modes
    return y, x, draw(st.sampled_from(modes))


@st.composite
def astar_cases(draw, profile="mix"):
    """profile 'mix': all size classes and layout kinds; 'big': both sides 6..12, sparse random obstacles, long routes
    (the class in which a wrong heuristic / wrong open-closed bookkeeping shows)."""
    if profile == "big":
        h, w = draw(st.integers(6, 12)), draw(st.integers(6, 12))
        kind = draw(st.sampled_from(["random", "random", "random", "walls"]))
    else:
        size = draw(st.sampled_from(["tiny", "small", "small", "big", "big", "any"]))
        lo, hi = {"tiny": (1, 3), "small": (2, 6), "big": (7, 12), "any": (1, 12)}[size]
        h, w = draw(st.integers(lo, hi)), draw(st.integers(lo, hi))
        kind = draw(st.sampled_from(["random", "random", "walls", "spiral", "islands"]))
    if kind == "islands":
        h, w = draw(st.integers(5, 12)), draw(st.integers(5, 12))
    if kind != "random" and min(h, w) < 3:
        kind = "random"
    dtype = draw(st.sampled_from(["float64", "float64", "float64", "float32", "int64"]))
    is_f = dtype.startswith("float")
    bset = draw(st.sampled_from(["b0", "b0", "b02", "none", "bf", "bneg"]))
    barriers, blk_f, blk_i, cr_f, cr_i = BSETS[bset]
    blk = blk_f if is_f else blk_i
    crs = cr_f if is_f else cr_i
    if (kind != "random" or profile == "big") and not blk:
        bset = "b0"
        barriers, blk_f, blk_i, cr_f, cr_i = BSETS[bset]
        blk = blk_f if is_f else blk_i
        crs = cr_f if is_f else cr_i
    if dtype == "int64" and bset == "bf":
        barriers = [0]  # integer surface: integer barrier list

    if kind == "random":
        # blocked share ~ 10, 20, 30, 50 %; one integer per cell (cheap to draw, shrinks towards "crossable")
        dens = draw(st.sampled_from([1, 2, 3] if profile == "big" else [1, 2, 3, 5])) if blk else 0
        flat_i = draw(st.lists(st.integers(0, 9), min_size=h * w, max_size=h * w))
        flat = [blk[(v + k) % len(blk)] if v >= 10 - dens else crs[(v + k) % len(crs)] for k, v in enumerate(flat_i)]
        data = [flat[i * w:(i + 1) * w] for i in range(h)]
    else:
        if kind == "islands":
            # a surface blocked nearly everywhere: 1-3 short crossable corridors far apart, end points snapped over long distances
            op = np.zeros((h, w), bool)
            for _ in range(draw(st.integers(1, 3))):
                (i0, j0), (i1, j1) = [(draw(st.integers(0, h - 1)), draw(st.integers(0, w - 1))) for _ in range(2)]
                if draw(st.booleans()):
                    i1, j1 = i0, j0                                   # a single cell
                i1 = max(i0 - 2, min(i0 + 2, i1))
                j1 = max(j0 - 2, min(j0 + 2, j1))
                for i in range(min(i0, i1), max(i0, i1) + 1):
                    op[i, j0] = True
                for j in range(min(j0, j1), max(j0, j1) + 1):
                    op[i1, j] = True
        elif kind == "walls":
            by_rows = draw(st.booleans())
            n_w = max(1, (h if by_rows else w) // 2)
            if draw(st.booleans()):
                gaps = [0 if k % 2 == 0 else max(h, w) - 1 for k in range(n_w)]  # serpentine: gaps at alternating ends
                if draw(st.booleans()):
                    gaps = [max(h, w) - 1 - g for g in gaps]
                if by_rows:
                    gaps = [min(g, w - 1) for g in gaps]
                else:
                    gaps = [min(g, h - 1) for g in gaps]
            else:
                gaps = draw(st.lists(st.integers(0, max(h, w) - 1), min_size=n_w, max_size=n_w))
            op = walls_open(h, w, by_rows, gaps)
        else:
            op, _ = spiral_open(h, w)
            tf = draw(st.sampled_from(["id", "flipud", "fliplr", "T"]))
            if tf == "flipud":
                op = op[::-1].copy()
            elif tf == "fliplr":
                op = op[:, ::-1].copy()
            elif tf == "T":
                op = spiral_open(w, h)[0].T.copy()
        flips = draw(st.lists(st.tuples(st.integers(0, h - 1), st.integers(0, w - 1)), max_size=0 if kind == "islands" else 2))
        for (i, j) in flips:
            op[i, j] = not op[i, j]
        data = _tokens_from_mask(op, bset, is_f, draw(st.sampled_from(["first", "last", "mixed"])))

    crossable = [(i, j) for i in range(h) for j in range(w) if not _is_blocked_token(data[i][j], barriers)]
    blocked = [(i, j) for i in range(h) for j in range(w) if _is_blocked_token(data[i][j], barriers)]
    snap_p = [False] * 7 + [True] if profile == "big" else [False, True, True, True] if kind == "islands" else [False, False, False, True]
    snap_s = draw(st.sampled_from(snap_p))
    snap_g = draw(st.sampled_from(snap_p))

    conn = draw(st.sampled_from([4, 8, 8] if profile == "big" else [4, 8]))

    def pick(snap):
        mode = draw(st.sampled_from(["blocked", "blocked", "cross", "any"] if snap else ["cross"] * 8 + ["blocked", "any"]))
        pool = crossable if (mode == "cross" and crossable) else blocked if (mode == "blocked" and blocked) else \
            [(i, j) for i in range(h) for j in range(w)]
        return pool[draw(st.integers(0, len(pool) - 1))]
    s = pick(snap_s)
    g = pick(snap_g)
    if crossable and s in crossable and draw(st.sampled_from([kind != "random" or profile == "big", False, True])):
        # goal = the reachable cell farthest from the start (longest forced detour of this layout)
        cm = np.zeros((h, w), bool)
        for c in crossable:
            cm[c] = True
        D = dijkstra(cm, s, conn)
        g = max(crossable, key=lambda c: (D[c[0]][c[1]] if math.isfinite(D[c[0]][c[1]]) else -1.0, c))
    y, x, res = draw(coord_specs(h, w, square=(snap_s or snap_g or draw(st.sampled_from([False, False, False, True])))))
    offc = draw(st.sampled_from([False, False, True]))
    fr = st.sampled_from(FRACS + [0])
    s_off = [draw(fr), draw(fr)] if offc else [0, 0]
    g_off = [draw(fr), draw(fr)] if offc else [0, 0]
    return {"sub": "astar", "kind": kind, "surface": {"dtype": dtype, "data": data}, "barriers": list(barriers), "bset": bset,
            "y": y, "x": x, "res": res, "s": list(s), "g": list(g), "s_off": s_off, "g_off": g_off,
            "conn": conn, "snap_start": snap_s, "snap_goal": snap_g,
            "explicit_flags": draw(st.booleans()),
            "ptform": draw(st.sampled_from(["tuple", "tuple", "list", "ndarray", "npscalar"])),
            "dims": draw(st.sampled_from([["y", "x"], ["y", "x"], ["lat", "lon"]]))}


# ------------------------------------------------------------------ exhaustive family

# (step, y offset, x offset, y desc, x desc, res mode, off-centre fraction pair or None); square cells so that snapping is in the domain
ENUM_COORDS = [
    (1.0, 0.0, 0.0, False, False, "tuple", None),
    (0.1, 0.0, 10.7, True, False, "tuple", None),
    (0.3, -3.3, 0.0, False, False, "tuple", None),
    (0.7, 10.7, -3.3, True, True, "list", None),
    (1.0 / 3.0, 0.0, 100.0, False, True, "tuple", None),
    (2.5, -3.3, 10.7, True, False, "scalar", None),
    (0.1, 100.0, -3.3, False, False, "none", None),
    (0.3, 10.7, 10.7, True, False, "tuple", (0.4, -0.25)),
    (1.0, 0.0, 0.0, True, False, "none", None),
    (0.7, 0.0, 1e6, False, True, "tuple", (-0.48, 0.48)),
    (0.1, -3.3, -3.3, True, True, "list", None),
    (1.0 / 3.0, 10.7, 0.0, False, False, "scalar", (0.1, 0.4)),
]


def _popcount_order(n):
    return sorted(range(1 << n), key=lambda v: (bin(v).count("1"), v))


def enum_cases(h, w, lo, hi):
    """Layouts with rank in [lo, hi) (ranked by number of blocked cells) x conn x ordered (s, g) x snap variants."""
    n = h * w
    order = _popcount_order(n)
    cells = [(i, j) for i in range(h) for j in range(w)]
    for rank in range(lo, hi):
        lay = order[rank]
        bits = [(lay >> k) & 1 for k in range(n)]
        # blocked cells alternate between the barrier value and NaN (by cell index parity, flipped by layout parity)
        flat = [("nan" if (k + lay) % 2 else 0.0) if b else float(1 + k % 3) for k, b in enumerate(bits)]
        data = [flat[i * w:(i + 1) * w] for i in range(h)]
        for ci, conn in enumerate((4, 8)):
            for si, s in enumerate(cells):
                for gi, g in enumerate(cells):
                    step, yo, xo, yd, xd, res, fr = ENUM_COORDS[(rank + 5 * ci + 3 * si + 7 * gi) % len(ENUM_COORDS)]
                    if (h == 1 or w == 1) and res == "none":
                        res = "tuple"
                    base = {"sub": "astar", "kind": "enum", "surface": {"dtype": "float64", "data": data}, "barriers": [0],
                            "y": {"start": yo, "step": step, "desc": yd, "n": h}, "x": {"start": xo, "step": step, "desc": xd, "n": w},
                            "res": res, "s": list(s), "g": list(g),
                            "s_off": list(fr) if fr else [0, 0], "g_off": [fr[1], fr[0]] if fr else [0, 0],
                            "conn": conn, "snap_start": False, "snap_goal": False, "enum": [h, w, lay, si, gi, conn, 0]}
                    yield base
                    bs, bg = bits[si], bits[gi]
                    if bs or bg:
                        v = dict(base)
                        v["snap_start"], v["snap_goal"] = bool(bs), bool(bg)
                        v["enum"] = [h, w, lay, si, gi, conn, 1]
                        yield v


def enum_size(h, w, lo, hi):
    n = h * w
    order = _popcount_order(n)
    tot = 0
    for rank in range(lo, hi):
        k = bin(order[rank]).count("1")
        # pairs with >= 1 blocked end: n^2 - (n-k)^2
        tot += 2 * (n * n + (n * n - (n - k) * (n - k)))
    return tot


def diag_cases():
    """The class repaired by /repo 03e907d: the only crossable cell lies in the corner opposite the requested, blocked cell."""
    for (h, w) in [(2, 2), (1, 3), (3, 1), (2, 3), (3, 3), (4, 2), (1, 2), (5, 7)]:
        for corner in [(0, 0), (0, w - 1), (h - 1, 0), (h - 1, w - 1)]:
            opp = (h - 1 - corner[0], w - 1 - corner[1])
            if opp == corner:
                continue
            for blocked_tok in (0.0, "nan"):
                data = [[blocked_tok] * w for _ in range(h)]
                data[opp[0]][opp[1]] = 1.0
                for vi, (step, yo, xo, yd, xd, res, fr) in enumerate(ENUM_COORDS[:4]):
                    if (h == 1 or w == 1) and res == "none":
                        res = "tuple"
                    for (ss, sg, s, g) in [(True, False, corner, opp), (False, True, opp, corner), (True, True, corner, corner)]:
                        yield {"sub": "astar", "kind": "diag", "surface": {"dtype": "float64", "data": data}, "barriers": [0],
                               "y": {"start": yo, "step": step, "desc": yd, "n": h}, "x": {"start": xo, "step": step, "desc": xd, "n": w},
                               "res": res, "s": list(s), "g": list(g), "conn": 8 if vi % 2 else 4, "snap_start": ss, "snap_goal": sg}


def snap_two_cases(n, lo, hi):
    """Snapping over long distances: an n x n surface that is blocked everywhere except two cells c1 < c2; start and goal both name the
    blocked cell p and are both snapped, so the answer is the one-cell route on whichever of c1, c2 is nearer to p (either when tied).
    Every (p, c1, c2) with p index in [lo, hi): the nearest cell is up to n-1 cells away in any direction, i.e. every ordering of an
    axis-aligned against a diagonal candidate occurs."""
    cells = [(i, j) for i in range(n) for j in range(n)]
    for pi in range(lo, hi):
        p = cells[pi]
        for a in range(len(cells)):
            if a == pi:
                continue
            for b in range(a + 1, len(cells)):
                if b == pi:
                    continue
                blocked_tok = "nan" if (a + b + pi) % 3 == 0 else 0.0
                data = [[blocked_tok] * n for _ in range(n)]
                data[cells[a][0]][cells[a][1]] = 1.0
                data[cells[b][0]][cells[b][1]] = 2.0
                step, yo, xo, yd, xd, res, fr = ENUM_COORDS[(a + 3 * b + 5 * pi) % len(ENUM_COORDS)]
                yield {"sub": "astar", "kind": "snap_two", "surface": {"dtype": "float64", "data": data}, "barriers": [0],
                       "y": {"start": yo, "step": step, "desc": yd, "n": n}, "x": {"start": xo, "step": step, "desc": xd, "n": n},
                       "res": res, "s": list(p), "g": list(p), "s_off": [0, 0], "g_off": [0, 0], "conn": 8 if (a + b) % 2 else 4,
                       "snap_start": True, "snap_goal": True, "enum": ["snap_two", n, pi, a, b]}


def two_gap_cases(h, w, wall_row, gaps, lo, hi):
    """Long detours with near-ties: an h x w surface with one wall (row `wall_row`) pierced by two gaps; the goal lies behind the wall, the
    start anywhere on the other side.  Two routes compete (one per gap) whose lengths a + b*sqrt(2) differ by as little as 0.07 - the class
    in which a heuristic that over-estimates by a hair (tie-breaking nudges) returns the longer one.  Every (goal column, start cell)
    with index in [lo, hi), 8-connectivity."""
    data = [[1.0] * w for _ in range(h)]
    for j in range(w):
        if j not in gaps:
            data[wall_row][j] = 0.0
    starts = [(i, j) for i in range(wall_row + 1, h) for j in range(w)]
    goals = [(i, j) for i in range(0, wall_row) for j in range(w)]
    k = 0
    for g in goals:
        for s_ in starts:
            if lo <= k < hi:
                yield {"sub": "astar", "kind": "two_gap", "surface": {"dtype": "float64", "data": data}, "barriers": [0],
                       "y": {"start": 0.0, "step": 1.0, "desc": False, "n": h}, "x": {"start": 0.0, "step": 1.0, "desc": False, "n": w},
                       "res": "none", "s": list(s_), "g": list(g), "s_off": [0, 0], "g_off": [0, 0], "conn": 8,
                       "snap_start": False, "snap_goal": False, "enum": ["two_gap", h, w, wall_row, list(gaps), k]}
            k += 1


def two_gap_size(h, w, wall_row):
    return (h - wall_row - 1) * w * wall_row * w


def own_coord_cases(res_mode):
    """'A cell's own coordinates denote that cell' over every (step, offset, direction) axis class x axis length x cell index:
    obstacle-free surface, start = cell (i, j) named by its own coordinates (and, second variant, by a point 0.48 cell off-centre),
    goal = another cell; the chain must start and end on exactly those cells."""
    classes = [(st_, off, desc) for st_ in STEPS for off in OFFSETS for desc in (False, True)]
    for n in (2, 3, 7, 12):
        for k, (ystep, yoff, ydesc) in enumerate(classes):
            xstep, xoff, xdesc = classes[(k * 7 + 3 + n) % len(classes)]
            if res_mode == "scalar":
                xstep = ystep
            m = 12 if n != 12 else 7  # x length differs from y length
            for i in range(n):
                j = (i * 5 + k) % m
                for var, fr in enumerate(([0, 0], [0.48 if (i + k) % 2 else -0.48, -0.48 if (i + k) % 3 else 0.48])):
                    yield {"sub": "astar", "kind": "own_coord", "surface": {"dtype": "float64", "data": [[1.0] * m for _ in range(n)]},
                           "barriers": [], "y": {"start": yoff, "step": ystep, "desc": ydesc, "n": n},
                           "x": {"start": xoff, "step": xstep, "desc": xdesc, "n": m}, "res": res_mode,
                           "s": [i, j], "g": [(i + n // 2) % n, (j + 5) % m], "s_off": fr, "g_off": [fr[1], fr[0]],
                           "conn": 8 if (i + k) % 2 else 4, "snap_start": False, "snap_goal": False, "enum": ["own", res_mode, n, k, i, var]}


# ------------------------------------------------------------------ shards

def _blocks(h, w, nblk):
    tot = 1 << (h * w)
    # equalise work: layouts with many blocked cells cost more (snap variants) - interleave is not possible with
    # contiguous rank ranges, so cut by cumulative size
    order = _popcount_order(h * w)
    n = h * w
    wts = [2 * (n * n + (n * n - (n - bin(v).count("1")) ** 2)) for v in order]
    total = sum(wts)
    cuts, acc, k = [0], 0, 1
    for i, wt in enumerate(wts):
        acc += wt
        if acc >= total * k / nblk and len(cuts) < nblk:
            cuts.append(i + 1)
            k += 1
    cuts.append(tot)
    cuts = sorted(set(cuts))
    return list(zip(cuts[:-1], cuts[1:]))


def shards(tier):
    out = []
    nrand, per = (16, 2000) if tier == "thorough" else (8, 400)
    nbig, perbig = (8, 2500) if tier == "thorough" else (4, 500)
    for i in range(nrand):
        out.append(("rand#%d" % i, lambda ctx, i=i: drive_hypothesis(ctx, body_astar, astar_cases("mix"), per)))
    for i in range(nbig):
        out.append(("big#%d" % i, lambda ctx, i=i: drive_hypothesis(ctx, body_astar, astar_cases("big"), perbig)))
    for mode in ("none", "tuple", "scalar"):
        out.append(("own_coord_res=%s" % mode, lambda ctx, mode=mode: drive_enum(
            ctx, body_astar, own_coord_cases(mode), space="own coordinates: axis classes x lengths {2,3,7,12} x cell index, res=%s" % mode)))

    small = [(1, 1), (1, 2), (2, 1), (1, 3), (3, 1), (2, 2), (1, 4), (4, 1), (2, 3), (3, 2)]

    def run_small(ctx):
        for (h, w) in small:
            tot = 1 << (h * w)
            drive_enum(ctx, body_astar, enum_cases(h, w, 0, tot), space="layouts x (s,g) x conn x snap %dx%d" % (h, w),
                       size=enum_size(h, w, 0, tot))
    out.append(("enum_small", run_small))
    grids = [((3, 3), 8), ((2, 4), 3), ((4, 2), 3)]
    if tier == "thorough":
        grids += [((3, 4), 24), ((4, 3), 24)]
    for (h, w), nblk in grids:
        for bi, (lo, hi) in enumerate(_blocks(h, w, nblk)):
            out.append(("enum_%dx%d#%d" % (h, w, bi),
                        lambda ctx, h=h, w=w, lo=lo, hi=hi: drive_enum(
                            ctx, body_astar, enum_cases(h, w, lo, hi),
                            space="layouts(rank %d..%d) x (s,g) x conn x snap %dx%d" % (lo, hi, h, w), size=enum_size(h, w, lo, hi))))
    n2, nb2 = (8, 8) if tier == "thorough" else (6, 3)
    for bi in range(nb2):
        lo, hi = bi * n2 * n2 // nb2, (bi + 1) * n2 * n2 // nb2
        out.append(("snap_two_%dx%d#%d" % (n2, n2, bi), lambda ctx, lo=lo, hi=hi: drive_enum(
            ctx, body_astar, snap_two_cases(n2, lo, hi), space="blocked %dx%d surface with two crossable cells x snapped cell index [%d,%d)" % (n2, n2, lo, hi),
            size=(hi - lo) * (n2 * n2 - 1) * (n2 * n2 - 2) // 2)))
    tg = [(14, 24, 1, (0, 22)), (14, 24, 1, (1, 23))] if tier != "thorough" else \
        [(14, 24, 1, (0, 22)), (14, 24, 1, (1, 23)), (14, 24, 1, (0, 23)), (16, 30, 1, (0, 28)), (16, 30, 2, (1, 29)), (14, 24, 2, (2, 21))]
    for (h_, w_, wr, gaps) in tg:
        tot = two_gap_size(h_, w_, wr)
        nb = 3 if tier != "thorough" else 4
        for bi in range(nb):
            lo, hi = bi * tot // nb, (bi + 1) * tot // nb
            out.append(("two_gap_%dx%d_r%d_g%d-%d#%d" % (h_, w_, wr, gaps[0], gaps[1], bi), lambda ctx, h_=h_, w_=w_, wr=wr, gaps=gaps, lo=lo, hi=hi: drive_enum(
                ctx, body_astar, two_gap_cases(h_, w_, wr, gaps, lo, hi),
                space="%dx%d surface, wall in row %d with gaps at columns %s x goal x start [%d,%d), 8-connectivity" % (h_, w_, wr, list(gaps), lo, hi), size=hi - lo)))
    out.append(("snap_diag", lambda ctx: drive_enum(ctx, body_astar, diag_cases(), space="only crossable cell in the opposite corner")))
    return out


LEVEL_TEXT = ("Randomised (Hypothesis) plus bounded-exhaustive search: every blocked-cell layout x every ordered start/goal pair x both "
              "connectivities (snap off, and snap on for every blocked end) on all grids up to 3x3, 1x4, 2x4 and their transposes (quick) plus "
              "3x4/4x3 (thorough); every cell index of every coordinate step/offset/direction class named by its own coordinates; and "
              "thousands of random/maze surfaces up to 12x12 over coordinate classes, each compared with a Dijkstra + chain-validity oracle. "
              "Decides the property inside the enumerated spaces, samples it outside.")
LEVEL_NOTE = ("Snapping is checked on square cells only; ties among equally near crossable cells are accepted either way; points are kept >= 0.02 "
              "cell away from a cell boundary; absence of violations outside the enumerated grids is sampled, not proven.")
TECHNIQUE = "property-based testing (Hypothesis) + exhaustive small-grid enumeration against a Dijkstra reference model"
