"""C07 - chunked (Dask) proximity / allocation / direction equal the whole-raster NumPy result."""
import math

import numpy as np
from hypothesis import strategies as st

from .. import strategies as S
from ..core import R, dec_arr, dec_list, dec_scalar, drive_enum, drive_hypothesis
from ..oracles import proximity as P

PROP = "C07"
RULE = ("Generator: rasters 2..10 a side (float64/float32) as Dask arrays with a drawn composition of H and of W as chunks (forced classes all-ones, single "
        "chunk, 1-cell first/last chunk), scheduler {synchronous, threads x {1,2,4,16}}, function drawn from {proximity, allocation, direction}, metric "
        "{EUCLIDEAN, MANHATTAN; GREAT_CIRCLE only on the single-block path or with sub-cell max_distance}, max_distance drawn relative to the cell sizes "
        "(k*cs*(1-d), k*cs, k*cs*(1+d) for k in 0..min(H,W) with cs the x or the y cell size, fractions of a cell, inf, >= raster diagonal), dyadic and non-dyadic (0.1, 1.1, 30.1) non-square cell sizes, "
        "asc/desc axes, res attr absent or consistent with the coordinates, explicit target_values; domain by construction: halo int(md/cell+0.5) <= H and <= W. "
        "Oracle: the same call on the NumPy raster (same NaN pattern, values 2e-6 relative, bearings 1e-3 deg mod 360), result Dask-backed before compute. "
        "Exhaustive shards: every composition product of fixed 3x3/4x4 (quick) and 5x5 (thorough) rasters. Non-trivial: >= 2 chunks on an axis, finite halo >= 1 "
        "and a target within max_distance of a cell in a different chunk. Distinct by SHA-1 / enumeration index.")
ASSUMPTIONS = ["halo in cells does not exceed the raster's height/width (stated domain)", "res attribute, when present, is consistent with the coordinates",
               "float rasters (the NaN boundary fill of the halo is not representable in integer rasters)",
               "GREAT_CIRCLE only where the halo computed from metres/degrees stays in the domain (single block or sub-cell max_distance)",
               "the harness picks scheduler and worker count; thread interleavings are sampled"]
BUDGET_S = {"quick": 220, "thorough": 1500}

FUNCS = ["proximity", "allocation", "direction"]


def _sched(case):
    import dask
    s = case.get("scheduler", "synchronous")
    if s == "synchronous":
        return dask.config.set(scheduler="synchronous")
    return dask.config.set(scheduler="threads", num_workers=int(s.split(":")[1]))


def body_dask(case, ctx):
    import dask.array as da
    import xarray as xr
    import xrspatial
    a = dec_arr(case["raster"])
    H, W = a.shape
    ys, xs = S.mk_axis(case["y"]), S.mk_axis(case["x"])
    sy, sx = case["y"]["step"], case["x"]["step"]
    metric = case["metric"]
    tv = dec_list(case["target_values"])
    md = dec_scalar(case["max_distance"])
    md = float("inf") if md is None else float(md)
    attrs = {} if not case.get("res") else {"res": (sx, sy) if case["res"] == "tuple" else [sx, sy]}
    chunks = (tuple(case["chunks"][0]), tuple(case["chunks"][1]))
    fn = getattr(xrspatial, case["func"])
    kw = dict(target_values=list(tv), max_distance=md, distance_metric=metric)
    r = R()
    # --- domain / classes
    maxposs = float(np.float32(P.metric_fn(metric)(xs[0], xs[-1], ys[0], ys[-1])))
    single_block = md >= maxposs
    pad_y = pad_x = 0
    if not single_block:
        pad_y, pad_x = int(md / sy + 0.5), int(md / sx + 0.5)
        if pad_y > H or pad_x > W:
            return r  # outside the stated domain; generators avoid it
    nchunks = max(len(chunks[0]), len(chunks[1]))
    af = a.astype("float64")
    tmask = P.target_mask(af, tv)
    cross = False
    if nchunks >= 2 and not single_block and (pad_y >= 1 or pad_x >= 1) and tmask.any():
        rb = np.repeat(np.arange(len(chunks[0])), chunks[0])
        cb = np.repeat(np.arange(len(chunks[1])), chunks[1])
        D = P.dist_matrix(xs, ys, metric)
        tid = np.where(tmask.ravel())[0]
        blk = (rb[:, None] * 100 + cb[None, :]).ravel()
        near = D[:, tid] <= md
        cross = bool((near & (blk[:, None] != blk[tid][None, :])).any())
    r.nt = cross
    r.label("dtype=" + case["raster"]["dtype"], "func=" + case["func"], "metric=" + metric, "sched=" + case.get("scheduler", "synchronous"),
            "path=" + ("single_block" if single_block else "halo"))
    if sx != sy:
        r.label("nonsquare_cells")
    if not single_block:
        r.label("halo=(%s,%s)" % ("0" if pad_y == 0 else "1" if pad_y == 1 else ">=2", "0" if pad_x == 0 else "1" if pad_x == 1 else ">=2"))
        if pad_y != pad_x:
            r.label("halo_differs_per_axis")
    if all(c == 1 for ax in chunks for c in ax) and nchunks > 1:
        r.label("all_one_cell_chunks")
    if cross:
        r.label("target_reaches_across_chunk_edge")
    if 0 in [float(t) for t in tv]:
        r.label("zero_listed_as_target_value")
    if case.get("elongated"):
        r.label("elongated_raster_long_axis_halo_exceeds_short_axis")
    if case.get("edge"):
        r.label("constructed_halo_edge_constellation")
    coords = {"y": ys, "x": xs}
    ref = np.asarray(fn(xr.DataArray(a.copy(), dims=["y", "x"], coords=coords, attrs=dict(attrs)), **kw).values, dtype="float64")
    dras = xr.DataArray(da.from_array(a.copy(), chunks=chunks), dims=["y", "x"], coords=coords, attrs=dict(attrs))
    res = fn(dras, **kw)
    if not isinstance(res.data, da.Array):
        r.label("observed:result_not_dask_backed")   # the backend of the result is C10's subject, not C07's
    with _sched(case):
        got = np.asarray(res.data.compute() if hasattr(res.data, "compute") else res.data, dtype="float64")
    info = "func=%s metric=%s md=%r chunks=%s steps=(%s,%s) halo=(%d,%d)\nraster=%s\nnumpy=%s\ndask=%s" % (
        case["func"], metric, md, chunks, sy, sx, pad_y, pad_x, a.tolist(), ref.tolist(), got.tolist())
    if got.shape != ref.shape:
        return r.fail("shape", info)
    nan_g, nan_r = np.isnan(got), np.isnan(ref)
    if (nan_g != nan_r).any():
        which = "dask_nan_numpy_value" if (nan_g & ~nan_r).any() else "dask_value_numpy_nan"
        return r.fail("nan_pattern.%s[%s]" % (which, "single_block" if single_block else "halo"), info)
    m = ~nan_r
    if case["func"] == "direction":
        d = np.abs(got[m] - ref[m])
        d = np.minimum(d, 360 - d)
        bad = d > 1e-3
    elif case["func"] == "allocation":
        bad = got[m] != ref[m]
    else:
        bad = np.abs(got[m] - ref[m]) > 2e-6 * np.maximum(1.0, np.abs(ref[m]))
    if bad.any():
        # is the dask result itself a valid answer (distance to a real target, not below the true nearest)?  -> different bucket
        return r.fail("value_differs.%s[%s]" % (case["func"], "single_block" if single_block else "halo"), info)
    return r


BODIES = {"dask": body_dask}


# ---------------------------------------------------------------- strategies

SCHEDS = ["synchronous", "synchronous", "threads:1", "threads:2", "threads:4", "threads:16"]


@st.composite
def dask_cases(draw, max_side):
    h, w = draw(st.integers(2, max_side)), draw(st.integers(2, max_side))
    metric = draw(st.sampled_from(["EUCLIDEAN", "EUCLIDEAN", "EUCLIDEAN", "MANHATTAN", "MANHATTAN", "MANHATTAN", "EUCLIDEAN", "GREAT_CIRCLE"]))
    if metric == "GREAT_CIRCLE":
        sy = draw(st.sampled_from([0.5, 2.0, 10.0]))
        sx = draw(st.sampled_from([0.5, 5.0, 20.0]))
        y = {"start": -sy * (h - 1) / 2, "step": sy, "n": h, "desc": draw(st.booleans())}
        x = {"start": -sx * (w - 1) / 2, "step": sx, "n": w, "desc": False}
    else:
        # dyadic and non-dyadic steps: with 0.1 / 1.1 / 30.1 the quotient max_distance / cellsize is not exact
        y = draw(S.axis_coords(h, steps=(1, 0.5, 2, 0.25, 3, 0.1, 1.1, 30.1, 0.3), offsets=(0, -7.5, 100)))
        x = draw(S.axis_coords(w, steps=(1, 0.5, 2, 0.25, 3, 0.1, 1.1, 30.1, 0.7), offsets=(0, 10.25)))
        sy, sx = y["step"], x["step"]
    dtype = draw(st.sampled_from(["float64", "float64", "float32", "int32", "int64", "uint8", "int16"]))
    dens = draw(st.sampled_from([3, 6, 12, 25]))
    vals = [v * 0.5 for v in range(1, 20)]
    elem = st.one_of(*([st.just(0)] * dens + [st.sampled_from(["nan", 0, 0])] + [st.sampled_from(vals)]))
    flat = draw(st.lists(elem, min_size=h * w, max_size=h * w))
    if draw(st.booleans()):
        # a target exactly k cells from a chunk edge is produced by the chunking strategy + sparse targets; force at least one target
        flat[draw(st.integers(0, h * w - 1))] = draw(st.sampled_from(vals))
    present = [v for v in dict.fromkeys(flat) if not isinstance(v, str) and v != 0]
    tv = [] if (not present or draw(st.integers(0, 2)) > 0) else present[:draw(st.integers(1, 2))]
    if draw(st.integers(0, 3)) == 0:
        # inverted raster: non-zero background, a few zero cells, and 0 listed as a target value (a real class 0): the halo fill value
        # and anything else that treats 0 as "background" become visible
        bgv = draw(st.sampled_from(vals))
        flat = [(0 if (not isinstance(v, str) and v != 0) else (v if isinstance(v, str) else bgv)) for v in flat]
        if 0 not in flat:
            flat[draw(st.integers(0, h * w - 1))] = 0
        tv = [0] if draw(st.booleans()) else [0, 77.5]
    if metric == "GREAT_CIRCLE":
        unit = P.haversine(0, min(sx, 1.0), 0, 0)
        md = draw(st.sampled_from([None, 4.1e7, unit * 0.2]))   # single block, >= half circumference, or far below one cell
    else:
        mode = draw(st.sampled_from(["inf", "diag", "k", "k", "k", "k", "k", "k", "k", "frac"]))
        if mode == "inf":
            md = None
        elif mode == "diag":
            md = math.hypot((h - 1) * sy, (w - 1) * sx) * draw(st.sampled_from([1.0, 1.0001, 2.0])) + (sy + sx if metric == "MANHATTAN" else 0) * max(h, w)
        elif mode == "frac":
            md = min(sy, sx) * draw(st.sampled_from([0.3, 0.49, 0.51, 0.9]))
        else:
            cs = draw(st.sampled_from([sy, sx]))
            k = draw(st.integers(0, min(h, w)))
            md = k * cs * draw(st.sampled_from([0.999, 1.0, 1.0, 1.0, 1.001, 1.3])) + draw(st.sampled_from([0, 0, 0.3 * cs]))
            if md <= 0:
                md = 0.3 * cs
            if draw(st.booleans()):
                md = round(md, 4)   # decimal literal (3.3 rather than 3 * 1.1)
            # keep the halo inside the raster on both axes (stated domain)
            while int(md / sy + 0.5) > h or int(md / sx + 0.5) > w:
                md *= 0.5
    if not dtype.startswith("float"):
        # integer rasters (land-cover codes): same layout with the values doubled to integers, NaN cells become background
        flat = [0 if isinstance(v, str) else int(round(v * 2)) for v in flat]
        tv = [int(round(t * 2)) for t in tv]
    return {"sub": "dask", "raster": {"dtype": dtype, "data": [flat[i * w:(i + 1) * w] for i in range(h)]}, "y": y, "x": x,
            "metric": metric, "target_values": tv, "max_distance": md, "chunks": [draw(S.chunking(h)), draw(S.chunking(w))],
            "scheduler": draw(st.sampled_from(SCHEDS)), "func": draw(st.sampled_from(FUNCS)),
            "res": draw(st.sampled_from([None, None, "tuple", "list"]))}


@st.composite
def edge_cases(draw):
    """Constructed constellation: a single target exactly k cells (along one axis) from a cell that is the first/last cell of a
    neighbouring chunk, max_distance = k * cellsize, dyadic and non-dyadic cell sizes - the cell is reachable only through the
    outermost halo line."""
    cs = draw(st.sampled_from([0.1, 1.1, 30.1, 0.2, 0.4, 0.7, 0.3, 1.0, 0.5, 3.0]))
    other = draw(st.sampled_from([1.0, 0.5, 2.0, 1.1, 0.1, 30.1]))
    k = draw(st.integers(1, 3))
    along_x = draw(st.booleans())
    n = draw(st.integers(2 * k + 2, 12))           # length of the axis the target reaches along
    m = draw(st.integers(2, 4))                    # the other axis
    t = draw(st.integers(0, n - 1 - k))            # target index; the facing cell is t+k (or mirrored)
    mirror = draw(st.booleans())
    line = draw(st.integers(0, m - 1))
    cut = t + k                                    # chunk boundary just before the facing cell
    if cut <= 0 or cut >= n:
        cut = max(1, min(n - 1, cut))
    long_chunks = [cut, n - cut]
    if draw(st.booleans()) and n - cut > 1:
        long_chunks = [cut, 1, n - cut - 1]        # the facing cell alone in its chunk
    short_chunks = draw(S.chunking(m))
    data = [[0.0] * (n if along_x else m) for _ in range(m if along_x else n)]
    ti = (n - 1 - t) if mirror else t
    if mirror:
        long_chunks = long_chunks[::-1]
    if along_x:
        data[line][ti] = 2.5
    else:
        data[ti][line] = 2.5
    sx, sy = (cs, other) if along_x else (other, cs)
    w, h = (n, m) if along_x else (m, n)
    md = k * cs * draw(st.sampled_from([1.0, 1.0, 1.0, 0.9999, 1.0001]))
    if draw(st.booleans()):
        md = round(md, 4)   # the decimal literal a user would type (3.3, not 3 * 1.1 = 3.3000000000000003)
    while int(md / sy + 0.5) > h or int(md / sx + 0.5) > w:
        md *= 0.5
    return {"sub": "dask", "raster": {"dtype": draw(st.sampled_from(["float64", "float32"])), "data": data},
            "y": {"start": draw(st.sampled_from([0, -7.5])), "step": sy, "n": h, "desc": draw(st.booleans())},
            "x": {"start": draw(st.sampled_from([0, 10.25])), "step": sx, "n": w, "desc": False},
            "metric": draw(st.sampled_from(["EUCLIDEAN", "MANHATTAN"])), "target_values": [], "max_distance": md,
            "chunks": [short_chunks, long_chunks] if along_x else [long_chunks, short_chunks],
            "scheduler": "synchronous", "func": draw(st.sampled_from(FUNCS)), "res": draw(st.sampled_from([None, "tuple"])), "edge": True}


@st.composite
def elongated_cases(draw):
    """Elongated rasters with non-square cells: the halo along the LONG axis (in cells) exceeds the length of the SHORT axis while each halo
    still fits its own axis (the stated domain), chunked along the long axis, sparse targets."""
    short = draw(st.integers(2, 5))
    long_ = draw(st.integers(12, 40))
    cs_long = draw(st.sampled_from([1.0, 0.5, 0.25, 1.1]))
    cs_short = draw(st.sampled_from([3.0, 4.0, 2.0, 30.1])) * (cs_long if draw(st.booleans()) else 1.0)
    pad_long = draw(st.integers(short + 1, max(short + 1, min(long_ - 1, 3 * short + 4))))
    md = (pad_long - draw(st.sampled_from([0.0, 0.25, 0.4]))) * cs_long
    while int(md / cs_short + 0.5) > short:
        md *= 0.9
    wide = draw(st.booleans())           # True: long axis is x
    h, w = (short, long_) if wide else (long_, short)
    sy, sx = (cs_short, cs_long) if wide else (cs_long, cs_short)
    n = h * w
    flat = [0.0] * n
    for _ in range(draw(st.integers(1, 3))):
        flat[draw(st.integers(0, n - 1))] = draw(st.sampled_from([1.0, 2.5, 7.0]))
    long_chunks = draw(S.chunking(long_))
    if len(long_chunks) == 1:
        c = draw(st.integers(1, long_ - 1))
        long_chunks = [c, long_ - c]
    short_chunks = draw(st.sampled_from([[short], [short], [1] * short]))
    return {"sub": "dask", "raster": {"dtype": "float64", "data": [flat[i * w:(i + 1) * w] for i in range(h)]},
            "y": {"start": 0, "step": sy, "n": h, "desc": draw(st.booleans())}, "x": {"start": 0, "step": sx, "n": w, "desc": False},
            "metric": draw(st.sampled_from(["EUCLIDEAN", "MANHATTAN"])), "target_values": [], "max_distance": md,
            "chunks": [short_chunks, long_chunks] if wide else [long_chunks, short_chunks], "scheduler": "synchronous",
            "func": draw(st.sampled_from(FUNCS)), "res": draw(st.sampled_from([None, "tuple"])), "elongated": True}


FIXED = {
    3: [[0, 0, 2.5], [0, 0, 0], [1.5, 0, 0]],
    4: [[0, 0, 0, 3.5], [0, 0, 0, 0], [0, 1.0, 0, 0], [0, 0, 0, "nan"]],
    5: [[0, 0, 0, 0, 2.0], [0, 0, 0, 0, 0], [0, 0, 4.5, 0, 0], ["nan", 0, 0, 0, 0], [1.0, 0, 0, 0, 0]],
}


DT_RASTER = [[0, 0, 0, 0, 3], [0, 0, 0, 0, 0], [0, 2, 0, 0, 0], [0, 0, 0, 0, 0], [0, 0, 0, 7, 0], [5, 0, 0, 0, 0]]


def dtype_matrix_cases(dtypes):
    """Raster dtype x output mode x target selection x halo depth x chunking on one fixed 6x5 class raster (default targets = every
    non-zero cell; the halo of a border chunk lies outside the raster, where an integer raster cannot hold the NaN fill)."""
    k = 0
    for dt in dtypes:
        for fi, func in enumerate(FUNCS):
            for tv in ([], [2, 7]):
                for md in (1.0, 2.5):
                    for chunks in ([[3, 3], [2, 3]], [[6], [1, 2, 2]], [[2, 2, 2], [5]]):
                        k += 1
                        yield {"sub": "dask", "raster": {"dtype": dt, "data": DT_RASTER}, "y": {"start": 0, "step": 1, "n": 6, "desc": bool(k % 2)},
                               "x": {"start": 0, "step": 1, "n": 5, "desc": False}, "metric": "EUCLIDEAN" if k % 3 else "MANHATTAN",
                               "target_values": tv, "max_distance": md, "chunks": chunks, "scheduler": "synchronous", "func": func, "res": None,
                               "enum": ["dtype_matrix", dt, func, tv, md, chunks]}


def enum_cases(n, variant, lo, hi):
    comps = list(S.compositions(n))
    pairs = [(a, b) for a in comps for b in comps]
    sy, sx = (1, 1) if variant % 2 == 0 else (2, 0.5)
    for idx in range(lo, min(hi, len(pairs))):
        a, b = pairs[idx]
        md = [1.0, 1.5, 2.0, 2.9][(idx + variant) % 4] * (sx if variant % 2 else 1)
        while int(md / sy + 0.5) > n or int(md / sx + 0.5) > n:
            md *= 0.5
        yield {"sub": "dask", "raster": {"dtype": "float64", "data": FIXED[n]}, "y": {"start": 0, "step": sy, "n": n, "desc": bool(variant & 2)},
               "x": {"start": 0, "step": sx, "n": n, "desc": False}, "metric": "EUCLIDEAN" if variant < 2 else "MANHATTAN", "target_values": [],
               "max_distance": md, "chunks": [list(a), list(b)], "scheduler": "synchronous", "func": FUNCS[(idx + variant) % 3], "res": None,
               "enum": [n, variant, idx]}


def shards(tier):
    out = []
    nr, per = (8, 14) if tier == "quick" else (10, 150)
    side = 8 if tier == "quick" else 10
    for i in range(nr):
        out.append(("rand#%d" % i, lambda ctx: drive_hypothesis(ctx, body_dask, dask_cases(side), per, shrink=(tier == "thorough"))))
    for i in range(2 if tier == "quick" else 4):
        out.append(("elongated#%d" % i, lambda ctx: drive_hypothesis(ctx, body_dask, elongated_cases(), per if tier == "quick" else 100, shrink=(tier == "thorough"))))
    for i in range(3 if tier == "quick" else 4):
        out.append(("edge#%d" % i, lambda ctx: drive_hypothesis(ctx, body_dask, edge_cases(), per if tier == "quick" else 100, shrink=(tier == "thorough"))))
    dts = ["int32", "int64", "uint8", "float32"] if tier == "quick" else ["int8", "int16", "int32", "int64", "uint8", "uint16", "uint32", "uint64", "float32", "float64"]
    for dt in dts:
        out.append(("dtype_matrix_%s" % dt, lambda ctx, dt=dt: drive_enum(ctx, body_dask, dtype_matrix_cases([dt]),
                                                                         space="raster dtype %s x 3 functions x 2 target selections x 2 halo depths x 3 chunkings" % dt, size=36)))
    if tier == "quick":
        plan = [(3, 0, 1), (3, 1, 1), (4, 0, 3)]
    else:
        plan = [(3, v, 1) for v in range(4)] + [(4, v, 2) for v in range(4)] + [(5, v, 4) for v in range(4)]
    for (n, variant, nblk) in plan:
        tot = (2 ** (n - 1)) ** 2
        for b in range(nblk):
            lo, hi = b * tot // nblk, (b + 1) * tot // nblk
            out.append(("enum_%dx%d_v%d#%d" % (n, n, variant, b), lambda ctx, n=n, variant=variant, lo=lo, hi=hi: drive_enum(
                ctx, body_dask, enum_cases(n, variant, lo, hi), space="chunk composition products %dx%d variant %d [%d,%d)" % (n, n, variant, lo, hi), size=hi - lo)))
    return out


LEVEL_TEXT = ("Differential search (Dask vs NumPy backend) over chunk compositions, max_distance values placed around halo boundaries, non-square cells, "
              "metrics, schedulers, raster dtypes (a designed dtype x function x target-selection x halo x chunking matrix) and the three output modes; plus every chunk-composition product of fixed 3x3/4x4 (quick) and 5x5 (thorough) rasters.")
LEVEL_NOTE = ("Sampled outside the enumerated chunk products; each call costs ~1.5 s (closure re-JIT), so case counts are hundreds (quick) to thousands (thorough); "
              "the independent validity oracle of C06 covers defects common to both backends.")
TECHNIQUE = "differential property-based testing (Dask chunked vs NumPy whole-raster) with exhaustive small chunk-composition products"
