"""C11 - results depend only on the arguments, not on earlier calls or thread timing (stateful, fresh-process oracle)."""
import contextlib
import hashlib
import inspect
import io
import json
import os
import subprocess
import sys

import numpy as np
from hypothesis import strategies as st

from ..core import R, HarnessError, Violation, derive_seed, digest, drive_enum, drive_hypothesis, exc_bucket

PROP = "C11"
RULE = ("Generator: sequences (Hypothesis lists / rule-based machine semantics: one shrinkable history per case) of call descriptors drawn from a catalogue of "
        "parametrised public calls built to stress captured state - proximity/allocation/direction alternating target_values/max_distance/metric, focal "
        "apply/focal_stats/convolution with alternating kernel shapes and reducers, focal.mean with default and explicit excludes, zonal stats with default "
        "and explicit stats_funcs, crosstab, polygonize on int/float/uint rasters, classifiers with varying k, terrain functions on float32/float64/int32 and "
        "NumPy/Dask in alternation, a_star_search with default and explicit barriers, perlin/generate_terrain with drawn seeds - interleaved with "
        "perturbations (np.random.seed/draws, numba.set_num_threads, Dask scheduler worker counts, repeating the previous call). Oracle: each step's result "
        "(bytes+dtype / table values) must equal the result of the same descriptor computed ALONE in a fresh interpreter (one single-use subprocess per "
        "distinct descriptor, different PYTHONHASHSEED and thread count); after every step the default arguments of every public function and the module "
        "tables are unchanged. Thread sub-check: prange kernels on 128x128 rasters under 1/4/16 Numba threads x 3 repetitions are bit-identical. "
        "Non-trivial step: preceded in the same process by a call of the same function with different parameters/dtype/backend or by an RNG/thread "
        "perturbation. Distinct by (descriptor, preceding descriptor).")
ASSUMPTIONS = ["histories are bounded and sampled; thread interleavings are sampled, not enumerated",
               "a Dask graph's reduction tree is fixed by the descriptor (backend + chunking), so results are compared exactly"]
BUDGET_S = {"quick": 420, "thorough": 1500}
ENV = {"NUMBA_NUM_THREADS": "16"}

HERE = os.path.dirname(os.path.dirname(os.path.dirname(os.path.abspath(__file__))))

K = {
    "cross3": [[0, 1, 0], [1, 1, 1], [0, 1, 0]],
    "row3": [[1, 1, 0]],
    "asym5x3": [[1, 0, 0], [0, 1, 1], [1, 1, 0], [0, 0, 1], [1, 0, 0]],
    "w3": [[0.5, -1, 0], [2, 1, 0], [0, 0, -0.25]],
    "w1x5": [[1, 0, 2, 0, -1]],
}


def raster(rid, dtype, backend, shape=(6, 7), nan=True, sparse=False, cs=None):
    import xarray as xr
    h, w = shape
    i, j = np.mgrid[0:h, 0:w]
    a = ((i * 7 + j * 3 + rid * 5) % 11 - 2).astype("float64")
    if sparse:   # few non-zero cells (values 3 and 5): proximity targets far apart
        k = (i * 7 + j * 3 + rid * 5) % 29
        a = np.where(k == 0, 3.0, np.where(k == 13, 5.0, 0.0))
        nan = False
    if dtype.startswith("float") and not sparse:
        a = a * 0.5
        if nan:
            a[rid % h, (rid * 3) % w] = np.nan
    elif dtype.startswith("uint"):
        a = np.abs(a)
    a = a.astype(dtype)
    if backend == "dask":
        import dask.array as da
        a = da.from_array(a, chunks=(3, 4))
    sy, sx = cs or (1.0, 1.0)   # coordinate scale: cell size 1.0*sy by 0.5*sx
    return xr.DataArray(a, dims=["y", "x"], coords={"y": np.arange(h) * 1.0 * sy, "x": np.arange(w) * 0.5 * sx}, attrs={"res": (0.5 * sx, 1.0 * sy)})


def _input_raster(d):
    """The raster argument of the single-raster families whose result depends on the raster's coordinates."""
    dt, bk = d.get("dtype", "float64"), d.get("backend", "numpy")
    if d["t"] == "prox":
        return raster(d["rid"], dt, bk, shape=tuple(d.get("shape", (6, 7))), sparse=True, cs=d.get("cs"))
    if d["t"] == "terrain":
        r_ = raster(d["rid"], dt, bk, cs=d.get("cs"))
        if d.get("nores"):
            r_.attrs.pop("res", None)    # cell size from the coordinates alone
        return r_
    if d["t"] == "viewshed":
        return raster(d["rid"], "float64", "numpy", nan=False, cs=d.get("cs"))
    raise KeyError(d["t"])


_ufuncs = {}


def _ufunc(name):
    if name not in _ufuncs:
        from xrspatial.utils import ngjit

        @ngjit
        def wsum(w):
            s = 0.0
            for i in range(w.shape[0]):
                for j in range(w.shape[1]):
                    if not np.isnan(w[i, j]):
                        s += w[i, j] * (1.0 + 2.0 * i + 0.5 * j)
            return s
        _ufuncs[name] = wsum
    return _ufuncs[name]


def exec_call(d):
    """Execute one call descriptor, return a canonical (json-able header, bytes) result."""
    out = build_call(d)
    bk = d.get("backend", "numpy")
    if bk == "dask" and hasattr(out, "compute"):
        import dask
        sched = d.get("_sched")   # perturbation: never part of the descriptor identity
        with (dask.config.set(scheduler="threads", num_workers=sched) if sched else dask.config.set(scheduler="synchronous")):
            out = out.compute()
    return canon(out)


def build_call(d, given=None):
    """Make the call; a dask-backed result is returned lazy.  `given`: use this raster OBJECT as the input (body_reuse)."""
    import xrspatial as X
    from xrspatial import classify, convolution, focal, local, multispectral as ms, zonal
    t = d["t"]
    dt, bk = d.get("dtype", "float64"), d.get("backend", "numpy")
    with contextlib.redirect_stdout(io.StringIO()):
        if t == "prox":
            kw = {"distance_metric": d["metric"]}
            if d["tv"] is not None:
                kw["target_values"] = d["tv"]
            if d["md"] is not None:
                kw["max_distance"] = d["md"]
            out = getattr(X, d["fn"])(given if given is not None else _input_raster(d), **kw)
        elif t == "focal_apply":
            func = _ufunc("wsum") if d["func"] == "u_wsum" else getattr(focal, "_calc_" + d["func"])
            out = focal.apply(raster(d["rid"], dt, bk), np.array(K[d["k"]], dtype="float64"), func)
        elif t == "focal_stats":
            out = focal.focal_stats(raster(d["rid"], dt, bk), np.array(K[d["k"]], dtype="float64"), stats_funcs=list(d["stats"])) if d["stats"] else \
                focal.focal_stats(raster(d["rid"], dt, bk), np.array(K[d["k"]], dtype="float64"))
        elif t == "conv":
            out = convolution.convolution_2d(raster(d["rid"], dt, bk), np.array(K[d["k"]], dtype="float64"))
        elif t == "focal_mean":
            kw = {"passes": d["passes"]}
            if d["excludes"] is not None:
                kw["excludes"] = [float("nan") if e == "nan" else e for e in d["excludes"]]
            out = focal.mean(raster(d["rid"], dt, bk), **kw)
        elif t == "hotspots":
            out = focal.hotspots(raster(d["rid"], dt, bk, nan=False), np.array(K[d["k"]], dtype="float64"))
        elif t == "zstats":
            zones = raster(d["rid"], "int32", bk, nan=False) % 4
            vals = raster(d["rid"] + 1, dt, bk)
            kw = {}
            if d["stats"] is not None:
                kw["stats_funcs"] = list(d["stats"])
            if d["zone_ids"] is not None:
                kw["zone_ids"] = list(d["zone_ids"])
            out = zonal.stats(zones, vals, **kw)
        elif t == "crosstab":
            zones = raster(d["rid"], "int32", bk, nan=False) % 3
            vals = (raster(d["rid"] + 2, "int32", bk, nan=False) % 4)
            kw = {"agg": d["agg"]}
            if d["cat_ids"] is not None:
                kw["cat_ids"] = list(d["cat_ids"])
            out = zonal.crosstab(zones, vals, **kw)
        elif t == "polygonize":
            from xrspatial.experimental.polygonize import polygonize
            r = raster(d["rid"], dt, "numpy", nan=False) % 3 if not dt.startswith("float") else np.floor(raster(d["rid"], dt, "numpy", nan=False)) % 3
            if d.get("vals") == "near":
                # nearly equal neighbours: distinct under the exact comparison used for integer rasters (2500000 vs 2500001),
                # equal under the isclose comparison used for float rasters (1.0 vs 1.000001) - exposes a comparison specialised once
                r = (r * 0 + 2500000 + r) if not dt.startswith("float") else (1.0 + r * 1e-6)
            out = polygonize(r.astype(dt), connectivity=d["conn"])
        elif t == "classify":
            r = raster(d["rid"], dt, bk)
            if d["fn"] == "binary":
                out = classify.binary(r, d["values"])
            elif d["fn"] == "reclassify":
                out = classify.reclassify(r, bins=d["bins"], new_values=list(range(len(d["bins"]))))
            elif d["fn"] == "natural_breaks" and d.get("num_sample") is not None:
                out = classify.natural_breaks(r, k=d["k"], num_sample=d["num_sample"])
            else:
                out = getattr(classify, d["fn"])(r, k=d["k"])
        elif t == "terrain":
            out = getattr(X, d["fn"])(given if given is not None else _input_raster(d))
        elif t == "astar":
            r = raster(d["rid"], dt, "numpy", nan=False)
            kw = {"connectivity": d["conn"], "snap_start": d["snap"], "snap_goal": d["snap"]}
            if d["barriers"] is not None:
                kw["barriers"] = list(d["barriers"])
            out = X.a_star_search(r, (0.0, 0.0), (5.0, 3.0), **kw)
        elif t == "perlin":
            out = X.perlin(raster(0, dt, bk, shape=tuple(d["shape"]), nan=False) * 0, seed=d["seed"], freq=tuple(d["freq"]))
        elif t == "gen_terrain":
            kw = {}
            for f, a in (("xr", "x_range"), ("yr", "y_range"), ("fe", "full_extent")):
                if d.get(f) is not None:
                    kw[a] = tuple(d[f])
            out = X.generate_terrain(raster(0, dt, bk, shape=tuple(d["shape"]), nan=False) * 0, seed=d["seed"], zfactor=d["zfactor"], **kw)
        elif t == "spectral":
            a, b, c = raster(d["rid"], dt, bk), raster(d["rid"] + 1, dt, bk), raster(d["rid"] + 2, dt, bk)
            if d["fn"] == "evi":
                out = ms.evi(a, b, c, c1=d["p"], gain=2.5)
            elif d["fn"] == "savi":
                out = ms.savi(a, b, soil_factor=d["p"])
            else:
                out = getattr(ms, d["fn"])(a, b)
        elif t == "viewshed":
            sy, sx = d.get("cs") or (1.0, 1.0)
            out = X.viewshed(given if given is not None else _input_raster(d), x=d["x"] * sx, y=d["y"] * sy, observer_elev=d["obs"])
        elif t == "regions":
            out = X.regions(raster(d["rid"], dt, "numpy") % 3, neighborhood=d["conn"])
        elif t == "local":
            import xarray as xr
            ds = xr.Dataset({"a": raster(d["rid"], "int32", "numpy", nan=False) % 3 + 1, "b": raster(d["rid"] + 1, dt, "numpy"), "c": raster(d["rid"] + 2, dt, "numpy")})
            out = local.cell_stats(ds, func=d["func"]) if d["fn"] == "cell_stats" else getattr(local, d["fn"])(ds, "a")
        else:
            raise KeyError(t)
    return out


def canon(out):
    import pandas as pd
    import xarray as xr
    if isinstance(out, xr.DataArray):
        a = np.asarray(out.data)
        a = np.array(a, copy=True)
        if a.dtype.kind == "f":
            a[np.isnan(a)] = np.nan
        return {"kind": "array", "dtype": str(a.dtype), "shape": list(a.shape), "sha": hashlib.sha1(np.ascontiguousarray(a).tobytes()).hexdigest(),
                "preview": np.asarray(a, dtype="float64").ravel()[:12].tolist() if a.dtype.kind in "fiub" else []}
    if isinstance(out, pd.DataFrame):
        a = np.array(out.to_numpy(dtype="float64"), copy=True)
        a[np.isnan(a)] = np.nan
        return {"kind": "table", "columns": [str(c) for c in out.columns], "shape": list(a.shape), "sha": hashlib.sha1(a.tobytes()).hexdigest(), "preview": a.ravel()[:12].tolist()}
    if isinstance(out, tuple):  # polygonize numpy return
        col, polys = out
        s = json.dumps([list(map(float, col)), [[np.asarray(ring).tolist() for ring in p] for p in polys]])
        return {"kind": "polygons", "n": len(col), "sha": hashlib.sha1(s.encode()).hexdigest(), "preview": list(map(float, col))[:12]}
    raise HarnessError("cannot canonicalise %r" % type(out))


def key_of(d):
    return digest({k: v for k, v in d.items() if not k.startswith("_")})


# ---------------------------------------------------------------- fresh-interpreter baseline

def baseline_main():
    d = json.loads(sys.stdin.read())
    import warnings
    warnings.filterwarnings("ignore")
    np.seterr(all="ignore")
    res = exec_call(d)
    sys.stdout.write("\n@@RESULT@@" + json.dumps(res) + "\n")


def fresh_baselines(descs, par=3):
    """descs: list of descriptors -> {key: result}; one single-use interpreter per descriptor."""
    out = {}
    procs = []
    todo = list(descs)
    while todo or procs:
        while todo and len(procs) < par:
            d = todo.pop(0)
            env = dict(os.environ)
            env["PYTHONHASHSEED"] = str(1 + (int(key_of(d)[:6], 16) % 1000))
            env["NUMBA_NUM_THREADS"] = ["1", "2", "4"][int(key_of(d)[:2], 16) % 3]
            p = subprocess.Popen([sys.executable, "-c", "from vlib.props.c11 import baseline_main; baseline_main()"], cwd=HERE, env=env,
                                 stdin=subprocess.PIPE, stdout=subprocess.PIPE, stderr=subprocess.PIPE, text=True)
            p.stdin.write(json.dumps({k: v for k, v in d.items() if not k.startswith("_")}))
            p.stdin.close()
            procs.append((d, p))
        d, p = procs.pop(0)
        so = p.stdout.read()
        se = p.stderr.read()
        p.wait()
        if "@@RESULT@@" not in so:
            out[key_of(d)] = {"kind": "error", "sha": "error", "preview": (se or so)[-600:]}
        else:
            out[key_of(d)] = json.loads(so.split("@@RESULT@@")[1])
    return out


# ---------------------------------------------------------------- invariants on module state

def state_snapshot():
    import importlib
    import xrspatial as X
    mods = {n: importlib.import_module("xrspatial." + n) for n in ("classify", "convolution", "focal", "local", "multispectral", "pathfinding", "perlin",
                                                                    "proximity", "terrain", "viewshed", "zonal", "slope", "aspect", "curvature", "hillshade")}
    classify, convolution, focal, local, proximity, zonal = (mods[n] for n in ("classify", "convolution", "focal", "local", "proximity", "zonal"))
    snap = {}
    for m in [X] + list(mods.values()):
        for name, f in vars(m).items():
            if inspect.isfunction(f) and not name.startswith("_") and f.__module__.startswith("xrspatial"):
                try:
                    sig = inspect.signature(f)
                except (TypeError, ValueError):
                    continue
                snap["%s.%s" % (f.__module__, name)] = repr([(p.name, p.default) for p in sig.parameters.values() if p.default is not inspect._empty])
    snap["zonal._DEFAULT_STATS"] = sorted(zonal._DEFAULT_STATS)
    snap["zonal._DASK_STATS"] = sorted(zonal._DASK_STATS)
    snap["zonal._DASK_BLOCK_STATS"] = sorted(zonal._DASK_BLOCK_STATS)
    snap["local.funcs"] = sorted(local.funcs)
    snap["convolution.UNITS"] = repr(sorted(convolution.UNITS.items()))
    snap["proximity.DISTANCE_METRICS"] = repr(sorted(proximity.DISTANCE_METRICS.items()))
    return snap


_BASE = {}
_STATE0 = None
_HISTORY = []   # keys executed so far in this process (across cases: the process keeps its history on purpose)


def body_seq(case, ctx):
    global _STATE0
    import numba
    if _STATE0 is None:
        _STATE0 = state_snapshot()
    r = R()
    steps = case["steps"]
    calls = [s for s in steps if s["op"] == "call"]
    need = [s["d"] for s in calls if key_of(s["d"]) not in _BASE]
    uniq = {}
    for d in need:
        uniq.setdefault(key_of(d), d)
    if uniq:
        _BASE.update(fresh_baselines(list(uniq.values())))
    prev = None
    perturbed = False
    sched = None
    for s in steps:
        if s["op"] == "rng":
            np.random.seed(s["seed"])
            np.random.random(s["n"])
            perturbed = True
            continue
        if s["op"] == "threads":
            numba.set_num_threads(min(s["n"], numba.config.NUMBA_NUM_THREADS))
            perturbed = True
            continue
        if s["op"] == "sched":
            sched = s["n"]
            perturbed = True
            continue
        d = dict(s["d"])
        k = key_of(d)
        if sched:
            d["_sched"] = sched
        base = _BASE[k]
        if base["kind"] == "error":
            # the call fails in a fresh interpreter as well: not a C11 matter (domain error of the catalogue) -> harness error
            raise HarnessError("catalogue descriptor fails in a fresh interpreter: %s\n%s" % (d, base["preview"]))
        try:
            got = exec_call(d)
        except Exception as e:  # noqa
            r.fail("call_raises_only_after_history[%s]" % d["t"], "descriptor %s raised %s: %s after history of %d calls (fresh interpreter returns a result)" % (d, type(e).__name__, e, len(_HISTORY)))
            return r
        same_fn_diff = any(h["t"] == d["t"] and hk != k for hk, h in _HISTORY[-40:])
        if same_fn_diff or perturbed:
            r.nt = True
            ctx.nt_digests.add(digest([_HISTORY[-1][0] if _HISTORY else None, k, bool(perturbed)]))
        r.label("t=" + d["t"])
        if same_fn_diff:
            r.label("preceded_by_same_function_other_params")
        if perturbed:
            r.label("preceded_by_perturbation")
        if got["sha"] != base["sha"] or got.get("dtype") != base.get("dtype") or got.get("shape") != base.get("shape"):
            prevd = _HISTORY[-1][1] if _HISTORY else None
            r.fail("differs_from_fresh_interpreter[%s]" % d["t"], "descriptor %s\n warm process: %s\n fresh interpreter: %s\n previous call: %s" % (d, got, base, prevd))
            _HISTORY.append((k, {kk: v for kk, v in d.items() if not kk.startswith("_")}))
            return r
        if s.get("repeat"):
            got2 = exec_call(d)
            if got2["sha"] != got["sha"]:
                r.fail("repeat_differs[%s]" % d["t"], "descriptor %s: %s then %s" % (d, got, got2))
                return r
        _HISTORY.append((k, {kk: v for kk, v in d.items() if not kk.startswith("_")}))
        now = state_snapshot()
        if now != _STATE0:
            diff = [kk for kk in now if now[kk] != _STATE0.get(kk)] + [kk for kk in _STATE0 if kk not in now]
            r.fail("module_state_or_defaults_mutated", "after %s: %s : %s -> %s" % (d, diff[:3], [_STATE0.get(x) for x in diff[:3]], [now.get(x) for x in diff[:3]]))
            return r
        prev = d
    r.weight = max(1, len(calls))
    if r.nt:
        r.label("sequence_with_nontrivial_step")
        r.nt = False   # non-trivial STEPS were already counted one by one (digest of descriptor + predecessor) above
    numba.set_num_threads(numba.config.NUMBA_NUM_THREADS)
    return r


def body_threads(case, ctx):
    """prange kernels on 128x128 rasters under 1/4/16 Numba threads, three repetitions each: bit-identical."""
    import numba
    import xarray as xr
    from xrspatial import convolution, focal, proximity
    n = case.get("n", 128)
    i, j = np.mgrid[0:n, 0:n]
    a = (((i * 37 + j * 11) % 101) * 0.25).astype("float64")
    a[(i * 7 + j) % 53 == 0] = np.nan
    ras = xr.DataArray(a, dims=["y", "x"], coords={"y": np.arange(n) * 1.0, "x": np.arange(n) * 1.0})
    tg = xr.DataArray(((i * 13 + j * 29) % 211 == 0).astype("float64"), dims=["y", "x"], coords={"y": np.arange(n) * 1.0, "x": np.arange(n) * 1.0})
    kern = np.array(K[case["k"]], dtype="float64")

    def run():
        which = case["fn"]
        if which == "focal_apply":
            return focal.apply(ras, kern, focal._calc_std).data
        if which == "convolution_2d":
            return convolution.convolution_2d(ras.fillna(0), kern).data
        if which == "hotspots":
            return focal.hotspots(ras.fillna(1), kern).data
        if which == "focal_mean":
            return focal.mean(ras, passes=2).data
        if which == "focal_stats":
            return focal.focal_stats(ras, kern, stats_funcs=["max", "sum"]).data
        if which in ("slope", "aspect", "curvature"):
            import xrspatial
            return getattr(xrspatial, which)(ras.fillna(2.0)).data
        if which == "regions":
            import xrspatial
            return xrspatial.regions(np.floor(ras.fillna(0)) % 3).data
        return proximity(tg, max_distance=case.get("md", np.inf)).data
    r = R(nt=True)
    r.label("threads_fn=" + case["fn"])
    numba.set_num_threads(1)
    base = np.asarray(run())
    bb = np.array(base, copy=True)
    for nt in (1, 4, 16):
        numba.set_num_threads(min(nt, numba.config.NUMBA_NUM_THREADS))
        for rep in range(3):
            g = np.asarray(run())
            same = np.array_equal(g, bb, equal_nan=(g.dtype.kind == "f"))
            if not same:
                r.fail("thread_count_changes_result[%s]" % case["fn"], "%d threads, repetition %d: %d cells differ" % (nt, rep, int((~((g == bb) | (np.isnan(g) & np.isnan(bb)))).sum())))
                numba.set_num_threads(numba.config.NUMBA_NUM_THREADS)
                return r
    numba.set_num_threads(numba.config.NUMBA_NUM_THREADS)
    r.weight = 9
    return r


def body_joint(case, ctx):
    """Several lazy (dask-backed) results built one after the other and evaluated TOGETHER in one dask computation: each must still
    equal the result of its own call made alone in a fresh interpreter (a result depends only on the arguments of its own call, not on
    which other results share the task graph)."""
    import dask
    r = R()
    ds = [dict(d) for d in case["ds"]]
    uniq = {}
    for d in ds:
        if key_of(d) not in _BASE:
            uniq.setdefault(key_of(d), d)
    if uniq:
        _BASE.update(fresh_baselines(list(uniq.values())))
    for d in ds:
        if _BASE[key_of(d)]["kind"] == "error":
            raise HarnessError("catalogue descriptor fails in a fresh interpreter: %s\n%s" % (d, _BASE[key_of(d)]["preview"]))
    try:
        outs = [build_call(d) for d in ds]
        lazy = [k for k, o in enumerate(outs) if hasattr(getattr(o, "data", None), "compute")]
        sched = case.get("sched")
        with (dask.config.set(scheduler="threads", num_workers=sched) if sched else dask.config.set(scheduler="synchronous")):
            vals = dask.compute(*[outs[k].data for k in lazy])
    except Exception as e:  # noqa
        r.fail("joint_evaluation_raises[%s]" % ds[0]["t"], "%s: %s for descriptors %s (each computes alone in a fresh interpreter)" % (type(e).__name__, e, ds))
        return r
    r.label("joint:n=%d" % len(lazy), "joint:how=" + case.get("how", "compute"), *["t=" + d["t"] for d in ds])
    same_fn = len({d["t"] for d in ds}) < len(ds) and len({key_of(d) for d in ds}) > 1
    r.nt = len(lazy) >= 2 and same_fn
    if same_fn:
        r.label("joint:same_function_other_params")
    import xarray as xr
    for k, v in zip(lazy, vals):
        got = canon(xr.DataArray(np.asarray(v)))
        base = _BASE[key_of(ds[k])]
        if got["sha"] != base["sha"] or got.get("dtype") != base.get("dtype") or got.get("shape") != base.get("shape"):
            r.fail("joint_evaluation_differs_from_fresh_interpreter[%s]" % ds[k]["t"],
                   "descriptor %s evaluated together with %s\n joint: %s\n fresh interpreter (alone): %s" % (ds[k], [x for i, x in enumerate(ds) if i != k], got, base))
            return r
    r.weight = max(1, len(lazy))
    return r


def body_reuse(case, ctx):
    """ONE raster object is analysed, its coordinates are then re-assigned in place (`ras['x'] = ...`, the idiom of the library's own docstrings)
    and the same call is made again: every result must equal the result, in a fresh interpreter, of that call on a raster built with those
    coordinates (nothing remembered about the object from the earlier call may leak into the later one)."""
    r = R()
    d0 = dict(case["d"], backend="numpy")
    ds = [_normalise(dict(d0, cs=cs)) for cs in case["scales"]]
    uniq = {}
    for d in ds:
        if key_of(d) not in _BASE:
            uniq.setdefault(key_of(d), d)
    if uniq:
        _BASE.update(fresh_baselines(list(uniq.values())))
    ras = None
    for k, d in enumerate(ds):
        base = _BASE[key_of(d)]
        if base["kind"] == "error":
            raise HarnessError("catalogue descriptor fails in a fresh interpreter: %s\n%s" % (d, base["preview"]))
        tmpl = _input_raster(d)
        if ras is None:
            ras = tmpl
        else:
            ras["y"] = tmpl["y"].values      # same object, new coordinates
            ras["x"] = tmpl["x"].values
            if "res" in tmpl.attrs:
                ras.attrs["res"] = tmpl.attrs["res"]   # a raster that states its cell size states the new one; one that does not is left as the call left it
        try:
            got = canon(build_call(d, given=ras))
        except Exception as e:  # noqa
            r.fail("call_raises_only_on_reused_object[%s]" % d["t"], "descriptor %s raised %s: %s on a raster object used before with other coordinates" % (d, type(e).__name__, e))
            return r
        r.label("reuse:t=" + d["t"], "reuse:step=%d" % k)
        if got["sha"] != base["sha"] or got.get("dtype") != base.get("dtype") or got.get("shape") != base.get("shape"):
            r.fail("reused_object_differs_from_fresh_interpreter[%s]" % d["t"], "descriptor %s on an object analysed before with coordinate scales %s\n reused object: %s\n fresh interpreter: %s" % (
                d, case["scales"][:k], got, base))
            return r
    r.nt = len({json.dumps(c) for c in case["scales"]}) >= 2
    r.weight = len(ds)
    return r


def reuse_cases():
    for t in ("prox", "terrain", "viewshed"):
        for fn in FIELDS[t].get("fn", [None]):
            base = {"t": t, "rid": 1}
            for f, vals in FIELDS[t].items():
                base[f] = vals[0]
            if fn is not None:
                base["fn"] = fn
            if "dtype" in FIELDS[t]:
                base["dtype"] = "float64"
            variants = [base]
            if t == "prox":
                variants = [dict(base, md=md, metric=m) for md in (None, 3.0) for m in ("EUCLIDEAN", "MANHATTAN")]
            if t == "viewshed":
                variants = [dict(base, x=1.5, y=2.0, obs=2.0)]
            if t == "terrain":
                variants = [dict(base, nores=False), dict(base, nores=True)]
            for b in variants:
                yield {"sub": "reuse", "d": _normalise(b), "scales": [None, [2.0, 3.0], [1.0, 0.5], None],
                       "enum": ["reuse", t, fn, b.get("md"), b.get("metric"), bool(b.get("nores"))]}


BODIES = {"seq": body_seq, "threads": body_threads, "joint": body_joint, "reuse": body_reuse}


# ---------------------------------------------------------------- strategies

DTS = ["float64", "float32", "int32"]
CSS = [None, [2.0, 3.0], [1.0, 0.5]]   # coordinate scale of the input raster (same cells, other cell size)
BKS = ["numpy", "numpy", "dask"]

# table-driven catalogue: family -> {field: candidate values}; a descriptor draws every field, a VARIANT re-draws one or two
# fields of an existing descriptor (histories of calls that differ in a few parameters are what the property is about)
FIELDS = {
    "prox": {"fn": ["proximity", "allocation", "direction"], "tv": [None, [3], [3, 5], [0]], "md": [None, 2.0, 3.0, 6.0, 50.0],
             "metric": ["EUCLIDEAN", "MANHATTAN"], "shape": [[6, 7], [3, 3], [9, 8]], "dtype": DTS, "backend": BKS, "cs": CSS},
    "focal_apply": {"k": ["cross3", "row3", "asym5x3"], "func": ["mean", "max", "std", "u_wsum"], "dtype": DTS, "backend": BKS},
    "focal_stats": {"k": ["cross3", "row3"], "stats": [None, ["max", "sum"], ["mean"]], "dtype": DTS, "backend": BKS},
    "conv": {"k": ["w3", "w1x5", "cross3"], "dtype": DTS, "backend": BKS},
    "focal_mean": {"passes": [1, 2], "excludes": [None, ["nan"], ["nan", 0.0]], "dtype": DTS, "backend": BKS},
    "hotspots": {"k": ["cross3", "row3"], "dtype": DTS, "backend": BKS},
    "zstats": {"stats": [None, ["mean", "max"], ["count", "sum", "std"]], "zone_ids": [None, [1, 2]], "dtype": ["float64", "int32"], "backend": BKS},
    "crosstab": {"agg": ["count", "percentage"], "cat_ids": [None, [1, 3]], "backend": BKS},
    "polygonize": {"dtype": ["int32", "int64", "uint32", "float32", "float64"], "conn": [4, 8], "vals": ["small", "near"]},
    "classify": {"fn": ["quantile", "natural_breaks", "equal_interval", "binary", "reclassify"], "dtype": DTS, "backend": BKS,
                 "values": [[1, 2], [0.5], [3, -1, 2]], "bins": [[0, 2, 4], [1, 9], [-1, 0, 1, 2, 3]], "k": [2, 3, 5],
                 "num_sample": [None, 30, 12, 20]},
    "terrain": {"fn": ["slope", "aspect", "curvature", "hillshade"], "dtype": DTS, "backend": BKS, "cs": CSS, "nores": [False, True]},
    "astar": {"barriers": [None, [0], [0, 1]], "conn": [4, 8], "snap": [False, True], "dtype": DTS},
    "perlin": {"seed": [0, 1, 2, 3], "freq": [[1, 1], [2, 3]], "shape": [[5, 6], [8, 4]], "dtype": ["float64", "float32"], "backend": BKS},
    "gen_terrain": {"seed": [0, 1, 2], "zfactor": [4000, 10], "shape": [[5, 6], [8, 4]], "dtype": ["float64"], "backend": BKS,
                    # x_range / y_range matter only relative to full_extent (tiles of one terrain): the first, default-for-sweeps value is a real extent
                    "xr": [None, [0, 250], [250, 500]], "yr": [None, [100, 350]], "fe": [[0, 0, 500, 500], None, [0, 0, 1000, 500]]},
    "spectral": {"fn": ["ndvi", "evi", "savi", "nbr"], "p": [1.0, 0.5, 0.0], "dtype": ["float64", "float32", "int32", "uint8"], "backend": BKS},
    "viewshed": {"x": [0.0, 1.5, 3.0], "y": [0.0, 2.0, 5.0], "obs": [0.0, 2.0], "cs": CSS},
    "regions": {"conn": [4, 8], "dtype": DTS},
    "local": {"fn": ["cell_stats", "rank", "popularity", "greater_frequency"], "func": ["sum", "max", "std"], "dtype": ["float64", "int32"]},
}


def _normalise(d):
    """drop fields a particular function does not use, so that equal calls have equal descriptors"""
    d = dict(d)
    if d["t"] == "classify":
        fn = d["fn"]
        if fn == "natural_breaks":
            d["backend"] = "numpy"
        for f, owners in (("values", ("binary",)), ("bins", ("reclassify",)), ("k", ("quantile", "natural_breaks", "equal_interval")),
                          ("num_sample", ("natural_breaks",))):
            if fn not in owners:
                d.pop(f, None)
    if d["t"] == "spectral":
        d["p"] = (d.get("p") if d.get("p") is not None else 1.0) if d["fn"] in ("evi", "savi") else None
    if d["t"] == "local":
        d["func"] = (d.get("func") or "sum") if d["fn"] == "cell_stats" else None
    if d["t"] == "gen_terrain":
        for f in ("xr", "yr", "fe"):
            d.setdefault(f, None)
    if d["t"] in ("prox", "terrain", "viewshed"):
        d.setdefault("cs", None)
    if d["t"] == "terrain":
        d["nores"] = bool(d.get("nores"))
    if d["t"] == "prox" and d.get("backend") == "dask" and d.get("md") is not None:
        # stated domain of the dask path (property C07): the halo, in cells, must not exceed the raster's own height/width, unless max_distance
        # reaches the raster's extent (single-block path).  raster(): y step 1.0, x step 0.5
        h, w = d.get("shape") or (6, 7)
        sy, sx = d.get("cs") or (1.0, 1.0)
        cy, cx = 1.0 * sy, 0.5 * sx
        ey, ex = (h - 1) * cy, (w - 1) * cx
        extent = (ey + ex) if d.get("metric") == "MANHATTAN" else (ey * ey + ex * ex) ** 0.5
        if d["md"] < extent and (int(d["md"] / cy + 0.5) > h or int(d["md"] / cx + 0.5) > w):
            d["backend"] = "numpy"
    if d["t"] == "classify":
        fn = d["fn"]
        if fn == "binary":
            d.setdefault("values", [1, 2])
        if fn == "reclassify":
            d.setdefault("bins", [0, 2, 4])
        if fn in ("quantile", "natural_breaks", "equal_interval"):
            d.setdefault("k", 3)
        if fn == "natural_breaks":
            d.setdefault("num_sample", None)
    return d


@st.composite
def descriptor(draw, families):
    t = draw(st.sampled_from(families))
    d = {"t": t, "rid": draw(st.integers(0, 2))}
    for f, vals in FIELDS[t].items():
        d[f] = draw(st.sampled_from(vals))
    return _normalise(d)


@st.composite
def variant(draw, base):
    d = dict(base)
    fields = sorted(FIELDS[base["t"]]) + ["rid"]
    for f in draw(st.lists(st.sampled_from(fields), min_size=1, max_size=2, unique=True)):
        d[f] = draw(st.integers(0, 2)) if f == "rid" else draw(st.sampled_from(FIELDS[base["t"]][f]))
    return _normalise(d)


FAMILIES = [
    ["prox"], ["focal_apply", "focal_stats", "conv", "hotspots"], ["focal_mean", "zstats", "crosstab"], ["polygonize", "regions", "classify"],
    ["terrain", "spectral", "astar"], ["perlin", "gen_terrain", "local", "viewshed"],
]


@st.composite
def sequences(draw, families, max_calls, max_distinct):
    base = draw(descriptor(families))
    pool = [base]
    for _ in range(draw(st.integers(1, max_distinct - 1))):
        # mostly variants of an existing descriptor (same function, one or two parameters changed), sometimes an unrelated call
        pool.append(draw(variant(draw(st.sampled_from(pool)))) if draw(st.integers(0, 4)) else draw(descriptor(families)))
    steps = []
    n = draw(st.integers(3, max_calls))
    for _ in range(n):
        kind = draw(st.sampled_from(["call", "call", "call", "call", "rng", "threads", "sched"]))
        if kind == "rng":
            steps.append({"op": "rng", "seed": draw(st.integers(0, 5)), "n": draw(st.integers(1, 50))})
        elif kind == "threads":
            steps.append({"op": "threads", "n": draw(st.sampled_from([1, 2, 4, 16]))})
        elif kind == "sched":
            steps.append({"op": "sched", "n": draw(st.sampled_from([1, 2, 4, 16]))})
        else:
            steps.append({"op": "call", "d": draw(st.sampled_from(pool)), "repeat": draw(st.integers(0, 3)) == 0})
    if not any(s["op"] == "call" for s in steps):
        steps.append({"op": "call", "d": pool[0], "repeat": True})
    return {"sub": "seq", "steps": steps}


DASK_FAMILIES = [t for t, f in FIELDS.items() if "dask" in f.get("backend", []) and t not in ("zstats", "crosstab")]   # raster-valued lazy results


@st.composite
def joint_cases(draw, families):
    base = dict(draw(descriptor(families)), backend="dask")
    pool = [_normalise(base)]
    for _ in range(draw(st.integers(1, 3))):
        d = draw(variant(draw(st.sampled_from(pool)))) if draw(st.integers(0, 5)) else draw(descriptor(families))
        d = _normalise(dict(d, backend="dask"))
        if d.get("t") == "classify" and d.get("fn") == "natural_breaks":
            continue
        if key_of(d) not in [key_of(x) for x in pool]:
            pool.append(d)
    return {"sub": "joint", "ds": pool, "how": "compute", "sched": draw(st.sampled_from([None, None, 4]))}


def sweep_cases(families, seed, take):
    """Designed parameter sweeps: for every function of the catalogue and every parameter that function uses, the same call is made with the
    parameter running through its values upwards and then downwards (all other parameters fixed) - histories in which only ONE captured
    parameter changes between neighbouring calls.  `take` = fraction of sweeps run (selected by the seed in the quick tier)."""
    import random as _r   # deterministic selection from VERIF_SEED only (not inside a property body)
    rng = _r.Random(seed)
    owners = {"classify": {"values": ["binary"], "bins": ["reclassify"], "k": ["quantile", "natural_breaks", "equal_interval"], "num_sample": ["natural_breaks"]},
              "spectral": {"p": ["evi", "savi"]}, "local": {"func": ["cell_stats"]}}
    out = []
    for t in families:
        fields = FIELDS[t]
        fns = fields.get("fn", [None])
        for fn in fns:
            base = {"t": t, "rid": 1}
            for f, vals in fields.items():
                base[f] = vals[0]
            if fn is not None:
                base["fn"] = fn
            if "dtype" in fields:
                base["dtype"] = "float64" if "float64" in fields["dtype"] else fields["dtype"][0]
            if "backend" in fields:
                base["backend"] = "numpy"
            for f, vals in fields.items():
                if f in ("fn",) or len(vals) < 2:
                    continue
                own = owners.get(t, {}).get(f)
                if own and fn not in own:
                    continue
                seq = [_normalise(dict(base, **{f: v})) for v in list(vals) + list(reversed(vals))[1:]]
                out.append({"sub": "seq", "steps": [{"op": "call", "d": d, "repeat": False} for d in seq], "designed": "sweep:%s.%s.%s" % (t, fn, f)})
    if take >= 1.0:
        return out
    # quick tier: always sweep the parameters that are captured/frozen/defaulted somewhere (limits, sample sizes, counts, seeds, shapes, lists
    # with mutable defaults); sample the remaining sweeps by the seed
    prio = ("num_sample", "md", "k", "passes", "seed", "shape", "excludes", "stats", "barriers", "tv", "vals")
    first = [c for c in out if c["designed"].rsplit(".", 1)[1] in prio]
    rest = [c for c in out if c not in first]
    rng.shuffle(rest)
    return first + rest[:int(len(rest) * take)]


def joint_sweep_cases(families):
    """Designed joint evaluations: for every dask-capable function and every parameter it uses, the calls that differ in that ONE parameter
    (all its catalogue values, everything else fixed) are built lazily and computed together."""
    for c in sweep_cases(families, 0, 1.0):
        ds, seen = [], set()
        for s_ in c["steps"]:
            d = _normalise(dict(s_["d"], backend="dask"))
            if d["t"] == "classify" and d.get("fn") == "natural_breaks":
                continue
            if key_of(d) not in seen:
                seen.add(key_of(d))
                ds.append(d)
        if len(ds) >= 2 and c["designed"].rsplit(".", 1)[1] != "backend":
            yield {"sub": "joint", "ds": ds, "how": "compute", "sched": None, "designed": "joint_" + c["designed"]}


def alt_prox_cases(fn):
    """Designed histories for the closure-compiled proximity kernels: for every (metric, target_values) the same function is called on a small
    raster with a limit beyond its diagonal, then on a larger raster without limit, with a small limit, and again without."""
    for metric in ("EUCLIDEAN", "MANHATTAN"):
        for tv in (None, [3]):
            base = {"t": "prox", "fn": fn, "tv": tv, "metric": metric, "dtype": "float64", "backend": "numpy", "rid": 1}
            seq = [dict(base, shape=[3, 3], md=3.0), dict(base, shape=[9, 8], md=None), dict(base, shape=[9, 8], md=2.0),
                   dict(base, shape=[6, 7], md=6.0), dict(base, shape=[9, 8], md=None, rid=2), dict(base, shape=[3, 3], md=None)]
            yield {"sub": "seq", "steps": [{"op": "call", "d": d, "repeat": i == 1} for i, d in enumerate(seq)], "designed": "alt_prox"}


# rasters below AND above typical "large input" thresholds (128x128 = 16 384 cells, 320x320 = 102 400 cells)
THREAD_CASES_BIG = [{"sub": "threads", "fn": f, "k": k, "n": 320} for f, k in (
    ("focal_apply", "asym5x3"), ("focal_stats", "cross3"), ("convolution_2d", "w3"), ("hotspots", "cross3"), ("focal_mean", "cross3"),
    ("slope", "cross3"), ("aspect", "cross3"), ("curvature", "cross3"), ("regions", "cross3"), ("proximity", "cross3"))]
THREAD_CASES = [{"sub": "threads", "fn": "focal_apply", "k": "asym5x3"}, {"sub": "threads", "fn": "convolution_2d", "k": "w3"},
                {"sub": "threads", "fn": "hotspots", "k": "cross3"}, {"sub": "threads", "fn": "focal_mean", "k": "cross3"},
                {"sub": "threads", "fn": "proximity", "k": "cross3"}, {"sub": "threads", "fn": "proximity", "k": "cross3", "md": 9.0}]


def shards(tier):
    out = []
    nseq, calls, distinct = (4, 10, 4) if tier == "quick" else (14, 25, 10)
    for fi, fams in enumerate(FAMILIES):
        for rep in range(2 if tier == "quick" else 2):
            out.append(("seq_%s#%d" % ("+".join(fams)[:24], rep), lambda ctx, fams=fams: drive_hypothesis(
                ctx, body_seq, sequences(fams, calls, distinct), nseq, shrink=(tier == "thorough"))))
    mixed = [f for fams in FAMILIES for f in fams]
    for rep in range(2 if tier == "quick" else 3):
        out.append(("seq_mixed#%d" % rep, lambda ctx: drive_hypothesis(ctx, body_seq, sequences(mixed, calls, distinct), nseq, shrink=(tier == "thorough"))))
    for fi, fams in enumerate(FAMILIES):
        take = 0.1 if tier == "quick" else 1.0
        out.append(("sweep_%s" % "+".join(fams)[:24], lambda ctx, fams=fams, take=take: drive_enum(
            ctx, body_seq, sweep_cases(fams, ctx.seed, take), space="designed one-parameter sweeps (%s), fraction %.2f" % ("+".join(fams), take))))
    gens = ["perlin", "gen_terrain"]
    rest = [t for t in DASK_FAMILIES if t not in gens]
    njoint = 6 if tier == "quick" else 40
    out.append(("joint_generators", lambda ctx: drive_hypothesis(ctx, body_joint, joint_cases(gens), njoint, shrink=(tier == "thorough"))))
    for bi in range(2):
        out.append(("joint_rasterfns#%d" % bi, lambda ctx, bi=bi: drive_hypothesis(ctx, body_joint, joint_cases(rest[bi::2]), njoint, shrink=(tier == "thorough"))))
    groups = [["perlin", "gen_terrain"], ["focal_apply", "focal_stats", "conv"], ["focal_mean", "hotspots", "terrain"], ["classify", "spectral"]]
    for gi, g in enumerate(groups):
        out.append(("joint_sweep_%s" % "+".join(g)[:24], lambda ctx, g=g: drive_enum(
            ctx, body_joint, joint_sweep_cases(g), space="designed joint evaluations: one-parameter families of lazy results (%s)" % "+".join(g))))
    for fn in ("proximity", "allocation", "direction"):   # one shard per function: each closure-compiled call costs ~1.3 s
        out.append(("joint_sweep_prox_%s" % fn, lambda ctx, fn=fn: drive_enum(
            ctx, body_joint, [c for c in joint_sweep_cases(["prox"]) if c["ds"][0]["fn"] == fn],
            space="designed joint evaluations: one-parameter families of lazy results (prox: %s)" % fn)))
    rc = list(reuse_cases())
    for bi in range(2):
        out.append(("reuse#%d" % bi, lambda ctx, bi=bi: drive_enum(ctx, body_reuse, rc[bi::2], space="same raster object re-used after its coordinates were re-assigned in place (prox x metric x limit, terrain, viewshed)", size=len(rc[bi::2]))))
    for fn in ("proximity", "allocation", "direction"):
        out.append(("alt_prox_%s" % fn, lambda ctx, fn=fn: drive_enum(ctx, body_seq, alt_prox_cases(fn), space="designed proximity alternation histories (%s)" % fn, size=4)))
    for bi in range(2):
        out.append(("threads_big#%d" % bi, lambda ctx, bi=bi: drive_enum(ctx, body_threads, THREAD_CASES_BIG[bi::2], space="prange kernels x thread counts (320x320)", size=5)))
    out.append(("threads#0", lambda ctx: drive_enum(ctx, body_threads, THREAD_CASES[0::2], space="prange kernels x thread counts", size=3)))
    out.append(("threads#1", lambda ctx: drive_enum(ctx, body_threads, THREAD_CASES[1::2], space="prange kernels x thread counts", size=3)))
    return out


LEVEL_TEXT = ("Stateful search: generated histories of parametrised public calls (with RNG / thread-count / scheduler perturbations) inside one warm process, every "
              "step compared exactly with the same call made alone in a fresh interpreter; defaults/module tables re-inspected after every step; prange kernels "
              "re-run under 1/4/16 threads; groups of lazy dask results are evaluated in one joint computation and each compared with its own fresh-interpreter result.")
LEVEL_NOTE = ("Histories are bounded and sampled (each fresh-interpreter baseline costs seconds, so a quick run covers tens of distinct calls, thorough hundreds); "
              "thread interleavings are sampled, not enumerated; the worker process keeps its history across cases on purpose.")
TECHNIQUE = "stateful property-based testing with a fresh-interpreter differential oracle (one subprocess per distinct call descriptor)"

if __name__ == "__main__":
    baseline_main()
