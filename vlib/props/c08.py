"""C08 - slope, aspect, curvature, hillshade are local 3x3 formulas with NaN borders.

Seven oracle parts (DESIGN.md section 5, C08):
  formula   independent float64 finite-difference formulas (vlib/oracles/terrain3x3.py) incl. how the cell size is delivered
  border    border cells NaN; ranges slope [0,90], aspect {-1} u [0,360], hillshade [0,1]
  locality  one edited cell (to NaN / to a value) changes nothing outside its 3x3 neighbourhood - at EVERY cell position
  offset    adding an integer constant changes nothing (bit-identical on float32-exact rasters)
  flat      a flat window gives slope 0 / aspect -1 / curvature 0 exactly
  rot       quarter turns of a square-celled raster: slope, curvature turn with it, aspect shifts by -90 per ccw turn
  summarize summarize_terrain == the three single-function results
"""
import numpy as np
from hypothesis import strategies as st

from .. import strategies as S
from ..core import R, dec_arr, dec_scalar, drive_enum, drive_hypothesis
from ..oracles import terrain3x3 as T

PROP = "C08"
RULE = ("Generator: elevation rasters 2..12 a side (thorough 14, 16, 20 too; side 2 = border-only, kept rare), dtypes float64/float32 + all 8 int dtypes, values from palettes "
        "(small ints, signed, halves/quarters, large ints, non-float32-representable, free floats 2^-10<=|v|<=1e4) arranged iid / 3x3-block plateaus / "
        "constant / planar ramp / one spike, NaN cells (1-2, ~10%, ~40% at drawn positions) in 3/8 of float rasters; cell size delivered as res attr (scalar, tuple, list; ints and "
        "floats; without coordinates, with agreeing coordinates, with disagreeing coordinates = res wins) or by coordinates only (asc/desc, offsets, "
        "steps 0.001..1000) or not at all (=1), x != y in about half; dim names (y,x),(lat,lon),(x,y),default; azimuth in [0,360], altitude in [0,90] "
        "(ints and floats). Sub-properties: formula (+border, range, flat, summarize_terrain) / locality (every cell position x {NaN, value}) / offset / "
        "rot (k=1,2,3 quarter turns, square cells). Enumerations: every 3x3 window over {0,1,2}, {nan,0,1}, int16 {0,1,3} (16 windows tiled per raster), "
        "every delivery form x 64 (cx,cy) pairs on two fixed rasters. "
        "Non-trivial: the raster has >= 1 interior cell whose 3x3 window is NaN-free and not flat (locality additionally: some finite output lies "
        "outside an edited neighbourhood; rot: raster not invariant under the turn). Distinct by SHA-1 of the case or enumeration index.")
ASSUMPTIONS = [
    "2-D rasters, >= 2 cells per axis (np.gradient in hillshade; calc_res divides by n-1), NumPy backend (Dask equivalence is C01)",
    "cell sizes are positive Python ints/floats; res = (x size, y size) as written by generate_terrain / get_dataarray_resolution; "
    "x belongs to dims[-1] (columns), y to dims[-2] (rows); a res attribute takes precedence over coordinates (pinned by the QGIS fixtures)",
    "aspect and hillshade use no cell size; curvature uses L=(cell_x+cell_y)/2 (DESIGN.md section 3 rule 1)",
    "no +-inf elevations; |v| <= 1.1e6; finite non-zero free floats have 2^-10 <= |v| so every 3x3 sum is exact in float64 and the "
    "zero-gradient (-1) decision has no rounding ambiguity (otherwise counted as ambiguous)",
    "NaN in a window cell that the formula reads gives NaN (IEEE propagation); a cell the formula does not read (centre for slope/aspect, "
    "corners for curvature, centre+corners for hillshade) does not matter",
]
BUDGET_S = {"quick": 200, "thorough": 1100}

FNS = ("slope", "aspect", "curvature", "hillshade")
INT_DTYPES = S.INT_DTYPES
CELL_VALUES = [1, 1.0, 2, 3, 30, 30.0, 10, 0.5, 0.25, 2.5, 0.1, 0.3, 1000.0, 0.001]
DIMS = {"yx": ("y", "x"), "latlon": ("lat", "lon"), "xy": ("x", "y"), "default": None}


# ---------------------------------------------------------------- inputs

def _axis(n, step, off, desc):
    a = off + step * np.arange(n, dtype="float64")
    return a[::-1].copy() if desc else a


def build(cell, data, name=None, shape_swap=False):
    """DataArray for a cell-size delivery spec.  Returns (DataArray, expected cell_x, expected cell_y)."""
    import xarray as xr
    h, w = data.shape
    dims = DIMS[cell.get("dims", "yx")]
    kind = cell["kind"]
    attrs = {}
    coords = None
    cx = cy = 1.0
    if kind in ("res", "res_over_coords"):
        cx, cy = cell["cx"], cell["cy"]
        form = cell["form"]
        if form == "scalar":
            attrs["res"] = cx
        elif form == "tuple":
            attrs["res"] = (cx, cy)
        elif form == "ndarray":    # what a tuple attribute becomes after a netCDF round trip
            attrs["res"] = np.array([float(cx), float(cy)])
        else:
            attrs["res"] = [cx, cy]
    if kind == "coords" or cell.get("coords"):
        c = cell["coords"] if kind != "coords" else cell
        sx, sy = (c["cx"], c["cy"]) if kind == "coords" else (c["sx"], c["sy"])
        ya = _axis(h, sy, c.get("yoff", 0), c.get("ydesc", False))
        xa = _axis(w, sx, c.get("xoff", 0), c.get("xdesc", False))
        if dims is None:
            dims = ("dim_0", "dim_1")
        coords = {dims[0]: ya, dims[1]: xa}
        if kind == "coords":
            # the raster's cell size = spacing of its (regular) coordinates
            cx = float(np.mean(np.abs(np.diff(xa))))
            cy = float(np.mean(np.abs(np.diff(ya))))
    kw = {}
    if dims is not None:
        kw["dims"] = dims
    if coords is not None:
        kw["coords"] = coords
    da = xr.DataArray(data, attrs=attrs, name=name, **kw)
    return da, float(cx), float(cy)


def cell_label(cell):
    k = cell["kind"]
    if k in ("res", "res_over_coords"):
        lab = "cell=%s_%s" % (k, cell["form"])
        if k == "res" and cell.get("coords"):
            lab += "+coords"
        return lab
    return "cell=" + k


def call4(da, az, alt):
    from xrspatial import aspect, curvature, hillshade, slope
    return {"slope": np.asarray(slope(da).data), "aspect": np.asarray(aspect(da).data),
            "curvature": np.asarray(curvature(da).data), "hillshade": np.asarray(hillshade(da, azimuth=az, angle_altitude=alt).data)}


def bits(a):
    """Canonical bit pattern (all NaNs mapped to one NaN)."""
    a = np.ascontiguousarray(a)
    a = np.where(np.isnan(a), np.array(np.nan, dtype=a.dtype), a)
    return a.view("u%d" % a.dtype.itemsize)


def is_exact(z):
    """Every value a multiple of 1/8 with |v| <= 2^19: all 3x3 partial sums are exact in float32."""
    v = z[np.isfinite(z)]
    return bool(np.all(np.abs(v) <= 2.0 ** 19) and np.all(v * 8 == np.round(v * 8)))


def _win(z, y, x):
    return np.array2string(z[y - 1:y + 2, x - 1:x + 2], separator=",").replace("\n", "")


# ---------------------------------------------------------------- the formula / border / range / flat comparison

def _hint(fn, out, z, cx, cy, az, alt, m):
    """Discriminating predicate for a value mismatch: which alternative hypothesis reproduces the output."""
    def close(ref, tol):
        with np.errstate(all="ignore"):
            d = np.abs(out[m] - ref[m])
            if fn == "aspect":
                d = np.where((out[m] < 0) | (ref[m] < 0), np.where(out[m] == ref[m], 0, np.inf), np.minimum(d, 360 - d))
            return bool(np.all(d <= tol[m] * 4 + 1e-6))
    alts = []
    if fn == "slope":
        alts = [("cellsizes_swapped", lambda: T.slope(z, cy, cx)), ("cellsize_ignored", lambda: T.slope(z, 1, 1)),
                ("x_size_on_both_axes", lambda: T.slope(z, cx, cx)), ("y_size_on_both_axes", lambda: T.slope(z, cy, cy))]
    elif fn == "curvature":
        alts = [("uses_x_size_only", lambda: T.curvature(z, cx, cx)), ("uses_y_size_only", lambda: T.curvature(z, cy, cy)),
                ("cellsize_ignored", lambda: T.curvature(z, 1, 1)),
                ("sign_flipped", lambda: tuple(s * a for s, a in zip((-1, 1), T.curvature(z, cx, cy))))]
    elif fn == "aspect":
        alts = [("mirrored_north_south", lambda: tuple(a[::-1] for a in T.aspect(z[::-1])[:2])),
                ("mirrored_east_west", lambda: tuple(a[:, ::-1] for a in T.aspect(z[:, ::-1])[:2])),
                ("uphill_instead_of_downhill", lambda: tuple(a for a in T.aspect(-z)[:2]))]
    elif fn == "hillshade":
        alts = [("azimuth_mirrored", lambda: T.hillshade(z, 360 - az, alt)), ("transposed_gradient", lambda: tuple(a.T for a in T.hillshade(z.T, az, alt)))]
    for name, f in alts:
        ref, tol = f()
        if np.array_equal(np.isnan(ref[m]), np.isnan(out[m])) and close(ref, tol):
            return name
    return "none of the listed alternatives"


def check_outputs(r, outs, z, cx, cy, az, alt, pre=""):
    """Parts 1, 2, 5 of the oracle on one raster.  `outs`: fn -> ndarray."""
    h, w = z.shape
    border = np.ones((h, w), bool)
    border[1:-1, 1:-1] = False
    flat = T.flat_windows(z)
    refs = {"slope": T.slope(z, cx, cy), "curvature": T.curvature(z, cx, cy), "hillshade": T.hillshade(z, az, alt)}
    aref, atol, aamb = T.aspect(z)
    refs["aspect"] = (aref, atol)
    for fn in FNS:
        out = outs[fn]
        if out.shape != (h, w):
            r.fail(pre + "shape." + fn, "output shape %s for input %s" % (out.shape, (h, w)))
            continue
        out = out.astype(np.float64)
        ref, tol = refs[fn]
        # ---- borders
        bad = border & ~np.isnan(out)
        if bad.any():
            y, x = np.argwhere(bad)[0]
            r.fail(pre + "border." + fn, "border cell (%d,%d) of a %dx%d raster is %r, expected NaN" % (y, x, h, w, out[y, x]))
        inner = ~border
        # ---- NaN pattern of the interior
        bad = inner & (np.isnan(out) != np.isnan(ref))
        if bad.any():
            y, x = np.argwhere(bad)[0]
            r.fail(pre + "formula.%s.nan/%s" % (fn, "nan_swallowed" if np.isnan(ref[y, x]) else "spurious_nan"),
                   "cell (%d,%d): got %r, formula gives %r; window %s" % (y, x, out[y, x], ref[y, x], _win(z, y, x)))
            continue
        m = inner & ~np.isnan(ref)
        if fn == "aspect":
            r.amb += int((m & aamb).sum())
            m = m & ~aamb
        # ---- ranges
        if fn == "slope":
            bad = m & ~((out >= 0) & (out <= 90))
        elif fn == "aspect":
            bad = m & ~((out == -1) | ((out >= 0) & (out <= 360)))
        elif fn == "hillshade":
            bad = m & ~((out >= -1e-6) & (out <= 1 + 1e-6))
        else:
            bad = np.zeros((h, w), bool)
        if bad.any():
            y, x = np.argwhere(bad)[0]
            r.fail(pre + "range." + fn, "cell (%d,%d) = %r outside the documented range; window %s" % (y, x, out[y, x], _win(z, y, x)))
        # ---- flat windows: exact values
        if fn != "hillshade":
            want = -1.0 if fn == "aspect" else 0.0
            bad = m & flat & (out != want)
            if bad.any():
                y, x = np.argwhere(bad)[0]
                r.fail(pre + "flat." + fn, "flat window of %r at (%d,%d) gives %s %r, expected exactly %r" % (z[y, x], y, x, fn, out[y, x], want))
        # ---- values
        with np.errstate(all="ignore"):
            d = np.abs(out - ref)
            if fn == "aspect":
                neg = (out == -1) | (ref == -1)
                d = np.where(neg, np.where(out == ref, 0.0, np.inf), np.minimum(d, 360.0 - d))
            bad = m & ~(d <= tol)
        if bad.any():
            y, x = np.argwhere(bad)[0]
            tag = hyp = ""
            if fn == "aspect" and (out[y, x] == -1) != (ref[y, x] == -1):
                tag = "/flat_marker_for_sloping_window" if out[y, x] == -1 else "/zero_gradient_not_-1"
            else:
                # which alternative reading reproduces the whole output (diagnostic only; input dependent, so not part of the bucket)
                hyp = "; whole output is reproduced by hypothesis: " + _hint(fn, out, z, cx, cy, az, alt, m)
            r.fail(pre + "formula.%s.value%s" % (fn, tag),
                   "%s at (%d,%d) = %r, formula %r (|diff| %.3g > tol %.3g); cell_x=%r cell_y=%r az=%r alt=%r; window %s%s"
                   % (fn, y, x, out[y, x], ref[y, x], d[y, x], tol[y, x], cx, cy, az, alt, _win(z, y, x), hyp))
    return aref


def _common_labels(r, case, data, z, cx, cy):
    cell = case["cell"]
    r.label(cell_label(cell), "square" if cx == cy else "nonsquare", "dtype=" + str(data.dtype),
            "dims=" + cell.get("dims", "yx"))
    if "meta" in case:
        r.label("pal=" + case["meta"]["pal"], "struct=" + case["meta"]["struct"])
    if data.dtype.kind in "iu":
        r.label("int_dtype")
    if np.isnan(z).any():
        r.label("nan_inside")
    r.label("exact_f32" if is_exact(z) else "inexact_f32")
    h, w = z.shape
    r.label("side<=3" if min(h, w) <= 3 else ("side<=6" if max(h, w) <= 6 else "side>6"))
    clean = T.clean_nonflat(z)
    return bool(clean.any())


def body_formula(case, ctx):
    from xrspatial.analytics import summarize_terrain
    data = dec_arr(case["raster"])
    az, alt = case["az"], case["alt"]
    name = case.get("name", "elev")
    payload = data
    if case.get("chunks"):
        # the same raster held as a chunked dask array: the statement is about the raster, not about how it is stored
        import dask.array as dsk
        payload = dsk.from_array(data, chunks=tuple(tuple(c) for c in case["chunks"]))
    da, cx, cy = build(case["cell"], payload, name=name)
    z = T.cast32(data)
    r = R()
    r.nt = _common_labels(r, case, data, z, cx, cy)
    if case.get("chunks"):
        r.label("dask", "dask_multi_chunk" if max(len(c) for c in case["chunks"]) > 1 else "dask_single_chunk")
    outs = call4(da, az, alt)
    aref = check_outputs(r, outs, z, cx, cy, az, alt)
    if T.flat_windows(z).any():
        r.label("has_flat_window")
    with np.errstate(all="ignore"):
        if ((aref == -1) & ~T.flat_windows(z)).any():
            r.label("zero_gradient_nonflat_window")
    if case.get("summ", True):
        r.label("summarize")
        ds = summarize_terrain(da)
        # summarize_terrain is only an observation point of the statement (it bundles the three functions): whichever variable carries a
        # function's result must agree with that function to float rounding; variable naming, dtype and bit patterns are not promised.
        for fn in ("slope", "curvature", "aspect"):
            keys = [k for k in ds.data_vars if str(k).endswith(fn)]
            if not keys:
                r.label("observed:summarize_terrain_has_no_%s_variable" % fn)
                continue
            got = np.asarray(ds[keys[0]].data, dtype="float64")
            exp = np.asarray(outs[fn], dtype="float64")
            if got.shape != exp.shape or not np.allclose(got, exp, rtol=1e-5, atol=1e-5, equal_nan=True):
                r.fail("summarize." + fn, "summarize_terrain[%r] differs from %s(raster)" % (keys[0], fn))
    return r


def body_local(case, ctx):
    """Part 3: single-cell edits at every position."""
    data = dec_arr(case["raster"])
    az, alt = case["az"], case["alt"]
    h, w = data.shape
    da, cx, cy = build(case["cell"], data)
    z = T.cast32(data)
    r = R()
    nt0 = _common_labels(r, case, data, z, cx, cy)
    base = call4(da, az, alt)
    edits = [dec_scalar(e) for e in case["edits"]]
    seen_outside = False
    nedits = 0
    for ev in edits:
        to_nan = isinstance(ev, float) and np.isnan(ev)
        kind = "edit_to_nan" if to_nan else "edit_to_value"
        for y in range(h):
            for x in range(w):
                d2 = data.copy()
                d2[y, x] = ev
                da2, _, _ = build(case["cell"], d2)
                outs = call4(da2, az, alt)
                nedits += 1
                keep = np.ones((h, w), bool)
                keep[max(0, y - 1):y + 2, max(0, x - 1):x + 2] = False
                for fn in FNS:
                    b, o = base[fn], outs[fn]
                    if not seen_outside and np.isfinite(b[keep]).any():
                        seen_outside = True
                    diff = keep & (bits(b) != bits(o))
                    if diff.any():
                        yy, xx = np.argwhere(diff)[0]
                        r.fail("locality.%s.%s" % (fn, kind),
                               "editing cell (%d,%d) %r -> %r changed %s at (%d,%d) (Chebyshev distance %d): %r -> %r"
                               % (y, x, data[y, x], ev, fn, yy, xx, max(abs(yy - y), abs(xx - x)), b[yy, xx], o[yy, xx]))
                if r.fails:
                    break
            if r.fails:
                break
        r.label(kind)
    r.label("edits/case=%s" % ("<=32" if nedits <= 32 else ("<=128" if nedits <= 128 else ">128")))
    r.nt = nt0 and seen_outside
    return r


def _offset_within_bound(r, a, b, z, z2, cx, cy, az, alt, k):
    """a = outputs for z, b = outputs for z2 = float32(z + k).  float32 rounds z+k, so the two outputs may differ by what the
    formula itself yields for the two rounded rasters plus the single-precision bound of each side; nothing else."""
    ra = {"slope": T.slope(z, cx, cy), "curvature": T.curvature(z, cx, cy), "hillshade": T.hillshade(z, az, alt)}
    rb = {"slope": T.slope(z2, cx, cy), "curvature": T.curvature(z2, cx, cy), "hillshade": T.hillshade(z2, az, alt)}
    refa, tola, amba = T.aspect(z)
    refb, tolb, ambb = T.aspect(z2)
    with np.errstate(all="ignore"):
        for fn in FNS:
            oa, ob = a[fn].astype(np.float64), b[fn].astype(np.float64)
            if fn == "aspect":
                skip = amba | ambb | ((refa == -1) != (refb == -1))     # rounding of z+k made / unmade a zero gradient
                r.amb += int(skip.sum())
                d = np.abs(oa - ob)
                d = np.where((oa == -1) | (ob == -1), np.where(oa == ob, 0.0, np.inf), np.minimum(d, 360 - d))
                dr = np.abs(refa - refb)
                allowed = tola + tolb + np.minimum(dr, 360 - dr)
                m = ~skip & ~np.isnan(refa) & ~np.isnan(refb)
            else:
                d = np.abs(oa - ob)
                allowed = ra[fn][1] + rb[fn][1] + np.abs(ra[fn][0] - rb[fn][0])
                m = ~np.isnan(ra[fn][0]) & ~np.isnan(rb[fn][0])
            bad = (np.isnan(oa) != np.isnan(ob)) | (m & ~np.isnan(oa) & ~(d <= allowed))
            if bad.any():
                y, x = np.argwhere(bad)[0]
                r.fail("offset." + fn, "adding %r changed %s at (%d,%d): %r -> %r, more than float32 rounding of the shifted elevations explains (%.3g); window %s"
                       % (k, fn, y, x, oa[y, x], ob[y, x], allowed[y, x], _win(z, y, x)))


def body_offset(case, ctx):
    """Part 4: adding an integer constant."""
    data = dec_arr(case["raster"])
    az, alt = case["az"], case["alt"]
    k = case["k"]
    da, cx, cy = build(case["cell"], data)
    z = T.cast32(data)
    if data.dtype.kind in "iu":
        ii = np.iinfo(data.dtype)
        assert ii.min <= int(data.min()) + k and int(data.max()) + k <= ii.max, "generator: offset leaves the dtype"
        d2 = np.array([[int(v) + k for v in row] for row in data.tolist()], dtype=data.dtype)
    else:
        d2 = (data.astype(np.float64) + k).astype(data.dtype)
    z2 = T.cast32(d2)
    r = R()
    r.nt = _common_labels(r, case, data, z, cx, cy) and k != 0
    da2, _, _ = build(case["cell"], d2)
    a = call4(da, az, alt)
    b = call4(da2, az, alt)
    with np.errstate(all="ignore"):
        shifted_exactly = bool(np.array_equal(z2, z + k, equal_nan=True))
    if is_exact(z) and is_exact(z2) and shifted_exactly:
        r.label("offset=bit_identical")
        for fn in FNS:
            diff = bits(a[fn]) != bits(b[fn])
            if diff.any():
                y, x = np.argwhere(diff)[0]
                r.fail("offset." + fn, "adding %r changed %s at (%d,%d): %r -> %r; window %s" % (k, fn, y, x, a[fn][y, x], b[fn][y, x], _win(z, y, x)))
    else:
        # float32 rounds a+k: "changes nothing" holds up to the single-precision bound => each side against the formula
        r.label("offset=within_rounding_bound")
        _offset_within_bound(r, a, b, z, z2, cx, cy, az, alt, k)
    return r


def body_rot(case, ctx):
    """Part 6: quarter turns of a square-celled raster (np.rot90, k counter-clockwise turns)."""
    data = dec_arr(case["raster"])
    az, alt = case["az"], case["alt"]
    k = case["k"]
    cell = case["cell"]
    da, cx, cy = build(cell, data)
    assert cell["kind"] == "none" or cell["cx"] == cell["cy"], "generator: rot needs square cells"
    z = T.cast32(data)
    r = R()
    d2 = np.ascontiguousarray(np.rot90(data, k))
    z2 = T.cast32(d2)
    r.nt = _common_labels(r, case, data, z, cx, cy) and not (d2.shape == data.shape and np.array_equal(z2, z, equal_nan=True))
    r.label("turns=%d" % k)
    da2, _, _ = build(cell, d2)
    a = call4(da, az, alt)
    b = call4(da2, az, alt)
    # coordinate-derived sizes of the two axes may differ in the last bit (different offsets/lengths): then only the bound applies
    exact = is_exact(z) and cx == cy and (cell["kind"] != "coords" or data.shape[0] == data.shape[1] and
                                          (cell["yoff"], cell["ydesc"]) == (cell["xoff"], cell["xdesc"]))
    for fn in ("slope", "curvature"):
        want = np.rot90(a[fn], k)
        got = b[fn]
        if exact:
            diff = bits(want) != bits(got)
        else:
            tol_a = np.rot90((T.slope(z, cx, cy) if fn == "slope" else T.curvature(z, cx, cy))[1], k)
            tol_b = (T.slope(z2, cx, cy) if fn == "slope" else T.curvature(z2, cx, cy))[1]
            with np.errstate(all="ignore"):
                diff = (np.isnan(want) != np.isnan(got)) | (np.abs(want.astype(float) - got.astype(float)) > tol_a + tol_b)
        if diff.any():
            y, x = np.argwhere(diff)[0]
            r.fail("rot.%s" % fn, "%s(rot90(a,%d))[%d,%d] = %r but rot90(%s(a),%d)[%d,%d] = %r (%s)"
                   % (fn, k, y, x, got[y, x], fn, k, y, x, want[y, x], "bit-identity expected" if exact else "beyond rounding bound"))
    r.label("rot=bit_identical" if exact else "rot=within_bound")
    # aspect: -1 and NaN stay, bearings shift by -90 per counter-clockwise quarter turn
    A = np.rot90(a["aspect"], k).astype(np.float64)
    B = b["aspect"].astype(np.float64)
    _, tol_a, amb_a = T.aspect(z)
    _, tol_b, amb_b = T.aspect(z2)
    skip = np.rot90(amb_a, k) | amb_b
    r.amb += int(skip.sum())
    with np.errstate(all="ignore"):
        bad = ~skip & ((np.isnan(A) != np.isnan(B)) | ((A == -1) != (B == -1)))
        if bad.any():
            y, x = np.argwhere(bad)[0]
            r.fail("rot.aspect.marker", "after %d turn(s) cell (%d,%d): aspect %r, original (turned) %r: NaN / -1 must turn with the raster" % (k, y, x, B[y, x], A[y, x]))
        else:
            m = ~skip & ~np.isnan(A) & (A != -1)
            d = np.abs(((B - (A - 90.0 * k)) + 180.0) % 360.0 - 180.0)
            tol = np.nan_to_num(np.rot90(tol_a, k)) + np.nan_to_num(tol_b)
            bad = m & ~(d <= tol)
            if bad.any():
                y, x = np.argwhere(bad)[0]
                r.fail("rot.aspect.shift", "after %d ccw quarter turn(s) cell (%d,%d): aspect %r, turned original %r, expected original - %d (mod 360); off by %.4g"
                       % (k, y, x, B[y, x], A[y, x], 90 * k, d[y, x]))
            if m.any():
                r.label("rot_aspect_bearing_checked")
    return r


# ---------------------------------------------------------------- docstring examples (anchor the reference model to the documentation)

_N = float("nan")
DOC_EXAMPLES = {
    "slope": {"data": [[0, 0, 0, 0, 0], [0, 0, 0, -1, 2], [0, 0, 0, 0, 1], [0, 0, 0, 5, 0]], "dtype": "int64", "cell": {"kind": "none", "dims": "default"},
              "slope": [[_N] * 5, [_N, 0., 14.036243, 32.512516, _N], [_N, 0., 42.031113, 53.395725, _N], [_N] * 5]},
    "aspect": {"data": [[1, 1, 1, 1, 1], [1, 1, 1, 2, 0], [1, 1, 1, 0, 0], [4, 4, 9, 2, 4], [1, 5, 0, 1, 4], [1, 5, 0, 5, 5]], "dtype": "float32",
               "cell": {"kind": "none", "dims": "yx"},
               "aspect": [[_N] * 5, [_N, -1., 225., 135., _N], [_N, 343.61045967, 8.97262661, 33.69006753, _N], [_N, 307.87498365, 71.56505118, 54.46232221, _N],
                          [_N, 191.30993247, 144.46232221, 255.96375653, _N], [_N] * 5]},
    "curvature": {"data": [[0, 0, 0, 0, 0], [0, 0, 0, 0, 0], [0, 0, -1, 0, 0], [0, 0, 0, 0, 0], [0, 0, 0, 0, 0]], "dtype": "float32",
                  "cell": {"kind": "res", "form": "tuple", "cx": 10, "cy": 10, "dims": "default"},
                  "curvature": [[_N] * 5, [_N, -0., 1., -0., _N], [_N, 1., -4., 1., _N], [_N, -0., 1., -0., _N], [_N] * 5]},
    "hillshade": {"data": [[0., 0., 0., 0., 0.], [0., 1., 0., 2., 0.], [0., 0., 3., 0., 0.], [0., 0., 0., 0., 0.], [0., 0., 0., 0., 0.]], "dtype": "float64",
                  "cell": {"kind": "coords", "dims": "yx", "cx": 1, "cy": 1, "ydesc": True, "xdesc": False, "yoff": 0, "xoff": 0},
                  "hillshade": [[_N] * 5, [_N, 0.71130913, 0.44167341, 0.71130913, _N], [_N, 0.95550163, 0.71130913, 0.52478473, _N],
                                [_N, 0.71130913, 0.88382559, 0.71130913, _N], [_N] * 5]},
    "summarize_terrain": {"data": [[0] * 8, [0] * 8, [0, 0, 1, 0, 0, -1, 0, 0], [0] * 8, [0] * 8], "dtype": "float64",
                          "cell": {"kind": "res", "form": "tuple", "cx": 1, "cy": 1, "dims": "default"},
                          "slope": [[_N] * 8, [_N, 10.024988, 14.036243, 10.024988, 10.024988, 14.036243, 10.024988, _N],
                                    [_N, 14.036243, 0., 14.036243, 14.036243, 0., 14.036243, _N],
                                    [_N, 10.024988, 14.036243, 10.024988, 10.024988, 14.036243, 10.024988, _N], [_N] * 8],
                          "curvature": [[_N] * 8, [_N, -0., -100., -0., -0., 100., -0., _N], [_N, -100., 400., -100., 100., -400., 100., _N],
                                        [_N, -0., -100., -0., -0., 100., -0., _N], [_N] * 8],
                          "aspect": [[_N] * 8, [_N, 315., 0., 45., 135., 180., 225., _N], [_N, 270., -1., 90., 90., -1., 270., _N],
                                     [_N, 225., 180., 135., 45., 0., 315., _N], [_N] * 8]},
}


def body_docex(case, ctx):
    """The arrays printed in the docstrings: the library must reproduce them, and so must the reference model
    (an 'oracle_selftest' failure means the model, not the library, departs from the documentation)."""
    ex = DOC_EXAMPLES[case["which"]]
    data = np.array(ex["data"], dtype=ex["dtype"])
    da, cx, cy = build(ex["cell"], data, name="myraster")
    z = T.cast32(data)
    r = R(nt=True)
    r.label("docstring_example")
    outs = call4(da, 225, 25)
    model = {"slope": T.slope(z, cx, cy)[0], "aspect": T.aspect(z)[0], "curvature": T.curvature(z, cx, cy)[0], "hillshade": T.hillshade(z, 225, 25)[0]}
    for fn in FNS:
        if fn not in ex:
            continue
        doc = np.array(ex[fn], dtype=np.float64)
        for who, got in (("library", outs[fn].astype(np.float64)), ("oracle_selftest", model[fn])):
            g = got % 360.0 if fn == "aspect" else got
            d = np.where(doc == -1, doc, doc % 360.0) if fn == "aspect" else doc
            g = np.where(got == -1, got, g) if fn == "aspect" else g
            if not np.allclose(g, d, rtol=2e-6, atol=2e-6, equal_nan=True):
                r.fail("docex.%s.%s" % (fn, who), "%s differs from the array printed in the %s docstring:\n%s\nvs\n%s" % (who, case["which"], got, doc))
    check_outputs(r, outs, z, cx, cy, 225, 25)
    return r


BODIES = {"formula": body_formula, "local": body_local, "offset": body_offset, "rot": body_rot, "docex": body_docex}


# ---------------------------------------------------------------- strategies

def _palette(draw, dtype):
    """(name, values) suitable for dtype."""
    dt = np.dtype(dtype)
    if dt.kind in "iu":
        ii = np.iinfo(dt)
        name = draw(st.sampled_from(["smallint", "signed", "bigint", "range"]))
        if name == "smallint" or (name == "signed" and ii.min == 0):
            return "smallint", S.PAL_SMALLINT
        if name == "signed":
            return name, S.PAL_SIGNED
        if name == "bigint":
            return name, [v for v in S.PAL_BIGINT if v <= ii.max]
        lo = draw(st.integers(max(ii.min, -1000), min(ii.max, 1000) - 1))
        hi = draw(st.integers(lo + 1, min(ii.max, lo + 60)))
        return name, list(range(lo, hi + 1))
    name = draw(st.sampled_from(["smallint", "signed", "halves", "nonf32", "free", "bigint"]))
    if name == "smallint":
        return name, [float(v) for v in S.PAL_SMALLINT]
    if name == "signed":
        return name, [float(v) for v in S.PAL_SIGNED]
    if name == "halves":
        return name, S.PAL_HALVES
    if name == "nonf32":
        return name, S.PAL_NONF32
    if name == "bigint":
        return name, [float(v) for v in S.PAL_BIGINT]
    mag = st.floats(2.0 ** -10, 1e4, allow_nan=False, allow_infinity=False, width=64)
    vals = draw(st.lists(st.one_of(mag, mag.map(lambda v: -v), st.just(0.0)), min_size=3, max_size=10))
    return name, vals


SIDES = [3, 4, 5, 6, 3, 4, 5, 7, 8, 6, 9, 10, 12, 2, 4, 5, 6, 7, 8, 3, 9, 10, 11, 4]   # small first (shrink target), 2 = border-only raster kept rare


@st.composite
def _grid(draw, h, w, values, specials=()):
    """h x w nested list from `values`; float rasters get NaN cells in 3 of 8 draws: one or two cells / ~10% / ~40%, at drawn positions."""
    n = h * w
    flat = draw(st.lists(st.sampled_from(list(values)), min_size=n, max_size=n))
    mode = draw(st.sampled_from(["none", "none", "none", "none", "none", "few", "some", "many"])) if specials else "none"
    if mode != "none":
        k = {"few": draw(st.integers(1, 2)), "some": max(1, n // 10), "many": max(1, (2 * n) // 5)}[mode]
        for pos in draw(st.lists(st.integers(0, n - 1), min_size=k, max_size=k)):
            flat[pos] = specials[0]
    return [flat[i * w:(i + 1) * w] for i in range(h)]


@st.composite
def elevations(draw, dtypes, min_side=2, max_side=12, structs=("iid", "iid", "iid", "iid", "plateau", "plateau", "plateau", "const", "ramp", "ramp", "spike", "spike")):
    sides = [s for s in SIDES + [14, 16, 20] if min_side <= s <= max_side]
    h = draw(st.sampled_from(sides))
    w = draw(st.sampled_from(sides))
    dtype = draw(st.sampled_from(list(dtypes)))
    is_f = dtype.startswith("float")
    pal, values = _palette(draw, dtype)
    struct = draw(st.sampled_from(list(structs)))
    specials = ("nan",) if is_f else ()
    if struct == "iid":
        data = draw(_grid(h, w, values, specials))
    elif struct == "plateau":
        ch, cw = -(-h // 3), -(-w // 3)
        coarse = draw(_grid(ch, cw, values, specials))
        oy, ox = draw(st.integers(0, 2)), draw(st.integers(0, 2))
        data = [[coarse[min((i + oy) // 3, ch - 1)][min((j + ox) // 3, cw - 1)] for j in range(w)] for i in range(h)]
        # sprinkle a few single-cell changes so that plateaus have ragged edges
        for _ in range(draw(st.integers(0, 3))):
            data[draw(st.integers(0, h - 1))][draw(st.integers(0, w - 1))] = draw(st.sampled_from(list(values)))
    elif struct == "const":
        v = draw(st.sampled_from(list(values)))
        data = [[v] * w for _ in range(h)]
        if specials and draw(st.booleans()):
            data[draw(st.integers(0, h - 1))][draw(st.integers(0, w - 1))] = "nan"
    elif struct == "ramp":
        p, q = draw(st.integers(-3, 3)), draw(st.integers(-3, 3))
        base = draw(st.sampled_from(list(values)))
        lo = min(0, p * (w - 1)) + min(0, q * (h - 1))
        if not is_f:
            ii = np.iinfo(np.dtype(dtype))
            base = int(base)
            span = abs(p) * (w - 1) + abs(q) * (h - 1)
            base = max(ii.min - lo, min(base, ii.max - (span + lo)))
        data = [[base + p * j + q * i for j in range(w)] for i in range(h)]
        pal = "ramp(" + pal + ")"
    else:  # spike: constant with one different cell (zero-gradient but non-flat windows, sign patterns)
        v = draw(st.sampled_from(list(values)))
        data = [[v] * w for _ in range(h)]
        others = [x for x in dict.fromkeys(values) if x != v] or [v]
        data[draw(st.integers(0, h - 1))][draw(st.integers(0, w - 1))] = draw(st.sampled_from(others))
    return {"dtype": dtype, "data": data}, {"pal": pal, "struct": struct}


@st.composite
def coord_axes(draw, sx, sy):
    return {"sx": sx, "sy": sy, "yoff": draw(st.sampled_from([0, 10.7, -3.3, 100])), "xoff": draw(st.sampled_from([0, 10.7, -3.3, 100])),
            "ydesc": draw(st.booleans()), "xdesc": draw(st.booleans())}


@st.composite
def cells(draw, square=None, fast=False):
    """Cell-size delivery spec.  square: None = half/half, True = forced square.  fast: avoid coordinate-derived sizes
    (calc_res costs ~3 ms per call) in 3 of 4 cases."""
    kinds = ["res", "res", "res", "coords", "coords", "res_over_coords", "none"]
    if fast:
        kinds = ["res"] * 8 + ["coords", "res_over_coords", "none"]
    kind = draw(st.sampled_from(kinds))
    dims = draw(st.sampled_from(["yx", "yx", "yx", "latlon", "xy", "default"]))
    cx = draw(st.sampled_from(CELL_VALUES))
    if square is None:
        square = draw(st.booleans())
    cy = cx if square else draw(st.sampled_from([v for v in CELL_VALUES if v != cx]))
    if kind == "none":
        return {"kind": "none", "dims": dims}
    if kind == "coords":
        c = draw(coord_axes(cx, cy))
        return {"kind": "coords", "dims": dims, "cx": c["sx"], "cy": c["sy"], "yoff": c["yoff"], "xoff": c["xoff"],
                "ydesc": c["ydesc"], "xdesc": c["xdesc"]}
    form = draw(st.sampled_from(["tuple", "list", "ndarray"] + (["scalar", "scalar"] if cx == cy else [])))
    out = {"kind": kind, "dims": dims, "form": form, "cx": cx, "cy": cy}
    if kind == "res_over_coords":
        # coordinates that say something else (swapped, or other steps): the res attribute is the stated cell size
        if cx != cy and draw(st.booleans()):
            out["coords"] = draw(coord_axes(cy, cx))
        else:
            ox = draw(st.sampled_from([v for v in CELL_VALUES if v != cx]))
            oy = draw(st.sampled_from([v for v in CELL_VALUES if v != cy]))
            out["coords"] = draw(coord_axes(ox, oy))
    elif draw(st.integers(0, 3)) == 0 and not fast:
        out["coords"] = draw(coord_axes(cx, cy))      # agreeing coordinates
    return out


def angles():
    az = st.one_of(st.sampled_from([0, 45, 90, 135, 180, 225, 270, 315, 360, 225.0]), st.floats(0, 360, allow_nan=False, width=64),
                   st.integers(0, 360))
    alt = st.one_of(st.sampled_from([0, 25, 45, 90, 30.0]), st.floats(0, 90, allow_nan=False, width=64), st.integers(0, 90))
    return az, alt


@st.composite
def formula_cases(draw, dtypes, max_side, dask=False):
    ras, meta = draw(elevations(dtypes, 2, max_side))
    az, alt = angles()
    case = {"sub": "formula", "raster": ras, "meta": meta, "cell": draw(cells()), "az": draw(az), "alt": draw(alt),
            "name": draw(st.sampled_from(["elev", "dem", "my raster"])), "summ": draw(st.integers(0, 2)) == 0}
    if dask:
        h, w = len(ras["data"]), len(ras["data"][0])
        case["chunks"] = [draw(S.chunking(h)), draw(S.chunking(w))]
        case["summ"] = draw(st.integers(0, 5)) == 0
    return case


def _edit_values(draw, ras, meta):
    dt = np.dtype(ras["dtype"])
    flat = [v for row in ras["data"] for v in row if v != "nan"]
    if dt.kind in "iu":
        ii = np.iinfo(dt)
        cand = sorted({min(ii.max, max(flat) + 50), max(ii.min, min(flat) - 50), min(ii.max, 7), 0 if ii.min <= 0 else ii.min} | set(flat[:3]))
        return [draw(st.sampled_from(cand))]
    cand = sorted(set([0.0, 1.0, -2.5, 1000.0, 0.1, 65536.0] + [float(v) for v in flat[:3]]))
    return ["nan", draw(st.sampled_from(cand))]


@st.composite
def local_cases(draw, dtypes, max_side):
    ras, meta = draw(elevations(dtypes, 3, max_side, structs=("iid", "iid", "iid", "plateau", "ramp", "spike")))
    az, alt = angles()
    return {"sub": "local", "raster": ras, "meta": meta, "cell": draw(cells(fast=True)), "az": draw(az), "alt": draw(alt),
            "edits": _edit_values(draw, ras, meta)}


@st.composite
def offset_cases(draw, dtypes, max_side):
    ras, meta = draw(elevations(dtypes, 3, max_side))
    az, alt = angles()
    dt = np.dtype(ras["dtype"])
    ks = [1, -1, 7, -3, 100, 1000, -1000, 65536, -65536, 100000]
    if dt.kind in "iu":
        flat = [v for row in ras["data"] for v in row]
        ii = np.iinfo(dt)
        ks = [k for k in ks if ii.min <= min(flat) + k and max(flat) + k <= ii.max] or [0]
    return {"sub": "offset", "raster": ras, "meta": meta, "cell": draw(cells(fast=True)), "az": draw(az), "alt": draw(alt),
            "k": draw(st.sampled_from(ks))}


@st.composite
def rot_cases(draw, dtypes, max_side):
    ras, meta = draw(elevations(dtypes, 3, max_side))
    az, alt = angles()
    return {"sub": "rot", "raster": ras, "meta": meta, "cell": draw(cells(square=True)), "az": draw(az), "alt": draw(alt),
            "k": draw(st.sampled_from([1, 1, 2, 3]))}


# ---------------------------------------------------------------- enumerations

ALPHABETS = {
    "f64_012": ("float64", [0.0, 1.0, 2.0]),
    "f32_nan01": ("float32", ["nan", 0.0, 1.0]),
    "i16_013": ("int16", [0, 1, 3]),
    "f64_m1_0_half": ("float64", [-1.0, 0.0, 0.5]),
    "f64_0125": ("float64", [0.0, 1.0, 2.0, 5.0]),
    "f32_nan013": ("float32", ["nan", 0.0, 1.0, 3.0]),
}
ENUM_CELLS = [{"kind": "res", "form": "tuple", "cx": 1, "cy": 1}, {"kind": "res", "form": "list", "cx": 2, "cy": 0.5},
              {"kind": "res", "form": "tuple", "cx": 0.5, "cy": 3.0}, {"kind": "res", "form": "scalar", "cx": 30.0, "cy": 30.0},
              {"kind": "none"}]
ENUM_ANGLES = [(225, 25), (0, 90), (90.0, 0.0), (315, 45), (180, 60.5), (33.3, 10)]


def window_cases(alpha, lo, hi):
    """Rasters 12x12 = 4x4 tiles of 3x3 windows; raster index i holds windows 16i .. 16i+15 of the alphabet's 9-tuples."""
    dtype, letters = ALPHABETS[alpha]
    n = len(letters)
    total = n ** 9
    for i in range(lo, hi):
        data = [[letters[0]] * 12 for _ in range(12)]
        for t in range(16):
            idx = (16 * i + t) % total
            ty, tx = divmod(t, 4)
            for p in range(9):
                idx, d = divmod(idx, n)
                py, px = divmod(p, 3)
                data[3 * ty + py][3 * tx + px] = letters[d]
        az, alt = ENUM_ANGLES[i % len(ENUM_ANGLES)]
        yield {"sub": "formula", "raster": {"dtype": dtype, "data": data}, "cell": dict(ENUM_CELLS[i % len(ENUM_CELLS)], dims="yx"),
               "az": az, "alt": alt, "summ": False, "enum": ["win3", alpha, i]}


def n_window_rasters(alpha):
    return -(-len(ALPHABETS[alpha][1]) ** 9 // 16)


DELIVERY_RASTERS = [
    {"dtype": "float64", "data": [[0, 1, 4, 2, 1], [2, 3, 9, 1, 0], [1, 5, 2, 2, 7], [0, 3, 1, 8, 2]]},
    {"dtype": "int32", "data": [[5, 1, 0], [2, 7, 1], [0, 3, 9], [4, 4, 1], [8, 0, 2]]},
]
DELIVERY_VALUES = [1, 2, 3, 30.0, 0.5, 0.25, 2.5, 0.1]


def delivery_cases():
    """Every delivery form x every (cx, cy) pair of DELIVERY_VALUES on two fixed asymmetric rasters."""
    i = 0
    dims_cycle = ["yx", "latlon", "xy", "default"]
    for ri, ras in enumerate(DELIVERY_RASTERS):
        forms = []
        for cx in DELIVERY_VALUES:
            for cy in DELIVERY_VALUES:
                for form in ("tuple", "list", "ndarray"):
                    forms.append({"kind": "res", "form": form, "cx": cx, "cy": cy})
                forms.append({"kind": "res", "form": "tuple", "cx": cx, "cy": cy,
                              "coords": {"sx": cx, "sy": cy, "yoff": 3, "xoff": -7, "ydesc": True, "xdesc": False}})
                forms.append({"kind": "res_over_coords", "form": "list", "cx": cx, "cy": cy,
                              "coords": {"sx": cy if cx != cy else 7.0, "sy": cx if cx != cy else 9.0, "yoff": 0, "xoff": 0, "ydesc": False, "xdesc": False}})
                for ydesc in (False, True):
                    for xdesc in (False, True):
                        forms.append({"kind": "coords", "cx": cx, "cy": cy, "yoff": 10.7 if ydesc else 0, "xoff": -3.3 if xdesc else 100,
                                      "ydesc": ydesc, "xdesc": xdesc})
            forms.append({"kind": "res", "form": "scalar", "cx": cx, "cy": cx})
            forms.append({"kind": "res_over_coords", "form": "scalar", "cx": cx, "cy": cx,
                          "coords": {"sx": 7.0, "sy": 9.0, "yoff": 0, "xoff": 0, "ydesc": True, "xdesc": True}})
        forms.append({"kind": "none"})
        for f in forms:
            az, alt = ENUM_ANGLES[i % len(ENUM_ANGLES)]
            yield {"sub": "formula", "raster": ras, "cell": dict(f, dims=dims_cycle[i % 4]), "az": az, "alt": alt,
                   "summ": i % 8 == 0, "name": "elev", "enum": ["delivery", ri, i]}
            i += 1


N_DELIVERY = len(DELIVERY_RASTERS) * (len(DELIVERY_VALUES) ** 2 * 9 + len(DELIVERY_VALUES) * 2 + 1)


# ---------------------------------------------------------------- shards

def _dtypes_for(i):
    """float64, float32 and two of the eight integer dtypes per shard (each (dtype, cell-size type) pair costs ~0.5 s of Numba compilation)."""
    return ["float64", "float64", "float32", INT_DTYPES[(2 * i) % 8], INT_DTYPES[(2 * i + 1) % 8]]


def shards(tier):
    th = tier == "thorough"
    out = []
    side = 20 if th else 12
    n_formula, per_formula = (16, 6500) if th else (6, 420)
    n_local, per_local = (12, 1300) if th else (4, 110)
    n_offset, per_offset = (8, 3600) if th else (2, 330)
    n_rot, per_rot = (8, 3600) if th else (2, 330)
    lside = 14 if th else 10
    for i in range(n_formula):
        out.append(("formula_rand#%d" % i, lambda ctx, i=i: drive_hypothesis(ctx, body_formula, formula_cases(_dtypes_for(i), side), per_formula)))
    for i in range(4 if th else 2):
        out.append(("formula_dask#%d" % i, lambda ctx, i=i: drive_hypothesis(ctx, body_formula, formula_cases(_dtypes_for(i + 2), 10, dask=True),
                                                                              1200 if th else 150)))
    for i in range(n_local):
        out.append(("local_rand#%d" % i, lambda ctx, i=i: drive_hypothesis(ctx, body_local, local_cases(_dtypes_for(i + 1), lside), per_local)))
    for i in range(n_offset):
        out.append(("offset_rand#%d" % i, lambda ctx, i=i: drive_hypothesis(ctx, body_offset, offset_cases(_dtypes_for(i + 2), side), per_offset)))
    for i in range(n_rot):
        out.append(("rot_rand#%d" % i, lambda ctx, i=i: drive_hypothesis(ctx, body_rot, rot_cases(_dtypes_for(i + 3), side), per_rot)))
    alphas = ["f64_012", "f32_nan01", "i16_013"] + (["f64_m1_0_half", "f64_0125", "f32_nan013"] if th else [])
    for al in alphas:
        total = n_window_rasters(al)
        nblk = 4 if total > 5000 else 1
        for bi in range(nblk):
            lo, hi = bi * total // nblk, (bi + 1) * total // nblk
            out.append(("win3_%s#%d" % (al, bi), lambda ctx, al=al, lo=lo, hi=hi: drive_enum(
                ctx, body_formula, window_cases(al, lo, hi),
                space="all 3x3 windows over %s %s, 16 per raster, rasters [%d,%d)" % (ALPHABETS[al][0], ALPHABETS[al][1], lo, hi), size=hi - lo)))
    out.append(("doc_examples", lambda ctx: drive_enum(ctx, body_docex, [{"sub": "docex", "which": k, "enum": ["docex", k]} for k in DOC_EXAMPLES],
                                                       space="docstring examples of slope/aspect/curvature/hillshade/summarize_terrain", size=len(DOC_EXAMPLES))))
    out.append(("delivery_enum", lambda ctx: drive_enum(ctx, body_formula, delivery_cases(),
                                                        space="cell-size delivery forms x 64 (cx,cy) pairs x 2 rasters", size=N_DELIVERY)))
    return out


LEVEL_TEXT = ("Randomised (Hypothesis) plus bounded-exhaustive search. Every generated elevation raster (all dtypes, NaN cells, plateaus, ramps, "
              "non-float32-representable values) with its cell size delivered through every documented route (res scalar/tuple/list/ndarray, coordinates, both, "
              "none; x != y) is compared cell by cell with an independent float64 statement of the cited formulas (Horn slope, descent bearing, "
              "Laplacian curvature, Lambert shading) under a stated single-precision bound, together with NaN borders, ranges, exact flat-window values "
              "and summarize_terrain; locality is decided for every cell position of each sampled raster by single-cell edits (to NaN and to a value) with "
              "bit-equality outside the 3x3 neighbourhood; offset and quarter-turn relations are bit-exact on float32-exact rasters. All 3^9 windows over "
              "three alphabets and every delivery form x 64 cell-size pairs are enumerated.")
LEVEL_NOTE = ("Inside the enumerated spaces the result is a decision; outside them it is sampled. Assumes positive Python-number cell sizes, res=(x,y), "
              "NumPy backend (plus a small dask-backed shard of the formula check), no +-inf elevations; aspect and hillshade are taken to ignore the cell size and curvature to use the mean of the two sizes.")
TECHNIQUE = "property-based testing (Hypothesis) + exhaustive 3x3-window / delivery-form enumeration against an independent finite-difference reference model and metamorphic relations"
