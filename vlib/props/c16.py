"""C16 - regions labels are exactly the connected components of equal value."""
import numpy as np
from hypothesis import strategies as st

from .. import strategies as S
from ..core import R, dec_arr, drive_enum, drive_hypothesis
from ..oracles import floodfill as ff
from ..oracles import topo

PROP = "C16"
RULE = ("Generator: (a) every raster over a 2-letter alphabet with <= 12 cells (quick) / <= 16 cells, one dtype <= 20 cells (thorough) and every raster over a 3-letter "
        "alphabet (three values, or two values + NaN) with <= 9 cells (one variant <= 10 in thorough), for every shape h x w incl. 1xN, Nx1, 1x1, neighbourhood 4 and 8; "
        "(b) random rasters up to 24x24 built from topology constructors (spiral, nested rings, comb/U, serpentine/S, tree, checkerboard, "
        "diagonal stripes, diamonds, holes touching the border, staircase, noise) then cropped, flipped, padded and perturbed, mapped to "
        "well-separated integer values in int32/int64/uint32/float32/float64 (and, in the narrow#/regress shards, int8/uint8/int16/uint16 incl. "
        "1xN / Nx1 / checkerboard rasters with MORE components than the dtype can count: > 127, > 255, one > 32767 and one > 65535), NaN cells at densities none/one/some/half/all-but-one/one-whole-value, "
        "C/F/strided/read-only layouts, varied dims, coords and attrs. Oracle: flood fill; labels must induce the same partition of the non-NaN "
        "cells, be > 0, NaN exactly at NaN cells; shape, dims, coords, attrs equal the input's. Non-trivial: some component is not a simple blob "
        "(not row-convex, or not column-convex, or its bounding box holds a same-valued cell of another component), i.e. a raster-scan labelling "
        "needs a late merge; distinct by SHA-1 of the case (random) or enumeration index.")
ASSUMPTIONS = ["values are integers with |v| <= 9999 (regions compares with isclose(rtol=1e-5, atol=1e-8); integers this small are never 'close')",
               "dtypes int8/uint8/int16/uint16/int32/int64/uint32/float32/float64, values inside the dtype's range; the number of components may exceed "
               "what the input dtype can count (labels need not have the input dtype); float32 rasters stay below 2**24 components",
               "NaN only in float rasters; no +-inf", "numpy-backed 2-D DataArray"]
BUDGET_S = {"quick": 240, "thorough": 900}

DTYPES = ["float64", "int32", "float32", "int64", "uint32"]
NARROW = {"int8": 127, "uint8": 255, "int16": 32767, "uint16": 65535}     # largest label the dtype itself could hold
POOL_NARROW = {"int8": [0, 1, 2, 3, 5, -1, -7, 100, 127, -128], "uint8": [0, 1, 2, 3, 5, 7, 100, 255],
               "int16": [0, 1, 2, 3, 5, -1, -7, 100, 255, 1000, 9999, -9999], "uint16": [0, 1, 2, 3, 5, 7, 100, 255, 1000, 9999]}
POOL_SIGNED = [0, 1, 2, 3, 5, -1, -7, 100, 255, 1000, 9999, -9999]
POOL_UNSIGNED = [0, 1, 2, 3, 5, 7, 100, 255, 1000, 9999]
DIMS = [["y", "x"], ["lat", "lon"], ["dim_0", "dim_1"], ["x", "y"]]
ATTRS = [{}, {"res": [1, 1], "unit": "m"}, {"nodata": 0, "k": [1, 2], "crs": "EPSG:4326"}]


def _pattern(p):
    """Compact raster spec for long rasters: checkerboard (i+j)%2 -> values[0/1] (1xN / Nx1 = alternating line),
    then `flips` = [[i, j, value]] overwritten.  Keeps a 1x32770 case a few bytes of JSON."""
    h, w = p["h"], p["w"]
    v0, v1 = p["values"]
    a = np.where((np.add.outer(np.arange(h), np.arange(w)) % 2) == 0, v0, v1).astype(p["dtype"])
    for (i, j, v) in p.get("flips", []):
        a[i, j] = v
    return a


def _mk(case):
    import xarray as xr
    base = dec_arr(case["raster"]) if "raster" in case else _pattern(case["pattern"])
    a = S.apply_layout(base, case.get("layout", "C"))
    h, w = a.shape
    dims = tuple(case.get("dims") or ("y", "x"))
    coords = {}
    if case.get("y") is not None:
        coords[dims[0]] = S.mk_axis(case["y"])
    if case.get("x") is not None:
        coords[dims[1]] = S.mk_axis(case["x"])
    if case.get("scalar_coord"):
        coords["band"] = 3
    return xr.DataArray(a, dims=dims, coords=coords, attrs=dict(case.get("attrs") or {}), name=case.get("name"))


def _shape_class(h, w):
    if h == 1 and w == 1:
        return "shape=1x1"
    if h == 1:
        return "shape=1xN"
    if w == 1:
        return "shape=Nx1"
    return "shape=small" if h * w <= 16 else ("shape=mid" if h * w <= 100 else "shape=large")


def body_regions(case, ctx):
    import xarray as xr
    from xrspatial.zonal import regions
    n = case["n"]
    da = _mk(case)
    a = np.asarray(da.data)
    h, w = a.shape
    # what the statement says must be kept, captured before the call
    in_shape, in_dims, in_attrs = da.shape, da.dims, dict(da.attrs)
    in_coords = {c: (da.coords[c].dims, np.array(da.coords[c].values, copy=True)) for c in da.coords}
    vals = a.tolist()
    if a.dtype.kind == "f":
        valid = [[v == v for v in row] for row in vals]
    else:
        valid = [[True] * w for _ in range(h)]
    lab, ncomp = ff.components(vals, valid, n)
    r = R()
    flat_vals = [v for row in vals for v in row]
    cells = ff.component_cells(lab, ncomp)
    r.nt = any(len(c) >= 3 and not ff.is_simple_blob(c, lab, flat_vals, w) for c in cells)
    nnan = sum(1 for l in lab if not l)
    r.label("n=%d" % n, "dtype=%s" % a.dtype, _shape_class(h, w),
            "ncomp=%s" % ("0" if ncomp == 0 else "1" if ncomp == 1 else "2-5" if ncomp <= 5 else "6-30" if ncomp <= 30 else ">30"),
            "nan=%s" % ("none" if nnan == 0 else "all" if nnan == h * w else "some"))
    if "kind" in case:
        r.label("kind=" + case["kind"], "layout=" + case.get("layout", "C"))
    if r.nt:
        r.label("needs_merge.n=%d" % n)
    if str(a.dtype) in NARROW:
        r.label("narrow_int", "narrow_int.components_%s_dtype_max" % ("exceed" if ncomp > NARROW[str(a.dtype)] else "within"))
    big = h * w > 2000

    def show(x):
        return "<%dx%d>" % (h, w) if big else x

    out = regions(da, neighborhood=n)

    if not isinstance(out, xr.DataArray):
        return r.fail("regions.type", "returned %s" % type(out))
    if out.shape != in_shape:
        return r.fail("regions.shape", "shape %s vs input %s" % (out.shape, in_shape))
    if out.dims != in_dims:
        return r.fail("regions.dims", "dims %s vs input %s" % (out.dims, in_dims))
    if set(out.coords) != set(in_coords):
        r.fail("regions.coords", "coord names %s vs input %s" % (sorted(out.coords), sorted(in_coords)))
    else:
        for c, (cd, cv) in in_coords.items():
            if out.coords[c].dims != cd or not np.array_equal(out.coords[c].values, cv):
                r.fail("regions.coords", "coord %r: %s vs input %s" % (c, out.coords[c].values, cv))
                break
    if dict(out.attrs) != in_attrs:
        r.fail("regions.attrs", "attrs %s vs input %s" % (dict(out.attrs), in_attrs))

    o = np.asarray(out.data)
    oflat = o.ravel().tolist()     # row-major
    validf = [bool(l) for l in lab]
    nonpos = False
    for k, ok in enumerate(validf):
        v = oflat[k]
        isn = v != v
        if ok and isn:
            return r.fail("regions.label_is_nan", "non-NaN cell (%d,%d) got NaN\nin=%s\nout=%s" % (k // w, k % w, vals, o.tolist()))
        if not ok and not isn:
            return r.fail("regions.nan_not_kept", "NaN cell (%d,%d) got label %r\nin=%s\nout=%s" % (k // w, k % w, v, vals, o.tolist()))
        if ok and not v > 0 and not nonpos:
            nonpos = True
            r.fail("regions.label_not_positive", "cell (%d,%d) label %r (raster dtype %s, %d components)\nin=%s\nout=%s" % (
                k // w, k % w, v, a.dtype, ncomp, show(vals), show(o.tolist())))
    split, merged = ff.partition_diff(oflat, lab)
    if split is not None:
        p, q = split
        r.fail("regions.component_split.n%d" % n,
               "cells (%d,%d) and (%d,%d) are joined by a %d-path of value %r but carry labels %r and %r\nin=%s\nout=%s\nflood=%s" % (
                   p // w, p % w, q // w, q % w, n, flat_vals[p], oflat[p], oflat[q], show(vals), show(o.tolist()),
                   show([lab[i * w:(i + 1) * w] for i in range(h)])))
    if merged is not None:
        p, q = merged
        r.fail("regions.components_merged.n%d" % n,
               "cells (%d,%d) [value %r] and (%d,%d) [value %r] are not joined by a %d-path of equal value but share label %r\nin=%s\nout=%s\nflood=%s" % (
                   p // w, p % w, flat_vals[p], q // w, q % w, flat_vals[q], n, oflat[p], show(vals), show(o.tolist()),
                   show([lab[i * w:(i + 1) * w] for i in range(h)])))
    return r


BODIES = {"regions": body_regions}


# ---------------------------------------------------------------- random cases

@st.composite
def regions_cases(draw, max_side, dtypes, layouts):
    g, k, kind = draw(topo.topo_grid(max_side))
    h, w = len(g), len(g[0])
    dtype = draw(st.sampled_from(dtypes))
    pool = POOL_UNSIGNED if dtype.startswith("uint") else POOL_SIGNED
    pal = draw(st.lists(st.sampled_from(pool), min_size=k, max_size=k, unique=True))
    data = [[pal[v] for v in row] for row in g]
    mode = "none"
    if dtype.startswith("float"):
        blank, mode = draw(topo.overlay(h, w, g, allow_all=True))
        if blank is not None:
            data = [["nan" if blank[i * w + j] else data[i][j] for j in range(w)] for i in range(h)]
    case = {"sub": "regions", "raster": {"dtype": dtype, "data": data}, "n": draw(st.sampled_from([4, 8])),
            "kind": kind, "blank": mode,
            "dims": draw(st.sampled_from(DIMS)),
            "y": draw(st.one_of(st.none(), S.axis_coords(h))), "x": draw(st.one_of(st.none(), S.axis_coords(w))),
            "attrs": draw(st.sampled_from(ATTRS)), "layout": draw(st.sampled_from(layouts)),
            "scalar_coord": draw(st.booleans())}
    return case


# ---------------------------------------------------------------- narrow integer dtypes

@st.composite
def narrow_cases(draw, max_side, dtypes):
    """int8/uint8/int16/uint16 rasters.  Half: the topology grids of the other shards in a narrow dtype (component count within
    the dtype's range); half: alternating lines / checkerboards with slightly fewer or MORE components than the dtype can count
    (8-bit only here: > 32767 components is one fixed case in the regress shard), a few cells overwritten."""
    dtype = draw(st.sampled_from(dtypes))
    pool = POOL_NARROW[dtype]
    if NARROW[dtype] > 255 or draw(st.booleans()):
        g, k, kind = draw(topo.topo_grid(max_side))
        h, w = len(g), len(g[0])
        pal = draw(st.lists(st.sampled_from(pool), min_size=k, max_size=k, unique=True))
        case = {"sub": "regions", "raster": {"dtype": dtype, "data": [[pal[v] for v in row] for row in g]}, "kind": kind}
    else:
        lim = NARROW[dtype]
        ncell = lim + draw(st.integers(-3, 40))
        shape = draw(st.sampled_from(["1xN", "Nx1", "checker"]))
        if shape == "1xN":
            h, w = 1, ncell
        elif shape == "Nx1":
            h, w = ncell, 1
        else:
            h = draw(st.integers(2, 16))
            w = -(-ncell // h)
        v = draw(st.lists(st.sampled_from(pool), min_size=3, max_size=3, unique=True))
        flips = draw(st.lists(st.tuples(st.integers(0, h - 1), st.integers(0, w - 1), st.sampled_from(v)).map(list), max_size=4))
        case = {"sub": "regions", "pattern": {"dtype": dtype, "h": h, "w": w, "values": v[:2], "flips": flips}, "kind": "overflow_" + shape}
    case.update({"n": draw(st.sampled_from([4, 4, 8])), "layout": draw(st.sampled_from(["C", "C", "F"])),
                 "attrs": draw(st.sampled_from(ATTRS)), "y": draw(st.one_of(st.none(), S.axis_coords(h))),
                 "x": draw(st.one_of(st.none(), S.axis_coords(w)))})
    return case


def regress_narrow_cases():
    """Fixed cases for the repaired defect 'labels stored in the raster's dtype wrap around' (fix: /repo 3a335a3)."""
    for dtype, lim in NARROW.items():
        shapes = [(1, lim + 1), (lim + 2, 1)]
        if lim <= 255:
            shapes += [(1, lim + 2), (12, -(-(lim + 6) // 12)), (1, 2 * lim + 5)]
        for (h, w) in shapes:
            for n in ((4, 8) if lim <= 255 else (4,)):
                yield {"sub": "regions", "pattern": {"dtype": dtype, "h": h, "w": w, "values": [0, 1]}, "n": n,
                       "kind": "regress_narrow", "enum": ["regress_narrow", dtype, h, w]}


# ---------------------------------------------------------------- enumerations

VARIANTS = {
    # name: (dtype, palette by digit)
    "bin_f64": ("float64", [0, 1]),
    "bin_i32": ("int32", [5, -3]),
    "ter_i64": ("int64", [0, 1, 2]),
    "ter_nan_f32": ("float32", [0, 1, "nan"]),
    "ter_f64": ("float64", [7, -1, 1000]),
    "ter_nan_f64": ("float64", ["nan", 2, 1]),
    "bin_u32": ("uint32", [0, 9999]),
}


def enum_cases(variant, h, w, lo, hi, sub="regions", key="n"):
    dtype, pal = VARIANTS[variant]
    base = len(pal)
    ncell = h * w
    for idx in range(lo, hi):
        x = idx
        flat = []
        for _ in range(ncell):
            x, d = divmod(x, base)
            flat.append(pal[d])
        data = [flat[i * w:(i + 1) * w] for i in range(h)]
        for n in (4, 8):
            yield {"sub": sub, "raster": {"dtype": dtype, "data": data}, key: n, "enum": [variant, h, w, idx]}


def _enum_shard(variant, chunks, body, sub, key):
    def run(ctx):
        for (h, w, lo, hi) in chunks:
            drive_enum(ctx, body, enum_cases(variant, h, w, lo, hi, sub, key),
                           space="%s %dx%d [%d,%d) x {4,8}" % (variant, h, w, lo, hi), size=2 * (hi - lo))
            if ctx.violations or ctx.budget_exhausted:
                break
    return run


def enum_shards(tier, plan, body, sub, key):
    out = []
    for variant, max_cells, k in plan:
        bins = topo.split_chunks(topo.enum_chunks(len(VARIANTS[variant][1]), max_cells, chunk=(1 << 14) if max_cells <= 12 else (1 << 16)), k)
        for i, b in enumerate(bins):
            if b:
                out.append(("enum_%s_le%d#%d" % (variant, max_cells, i), _enum_shard(variant, b, body, sub, key)))
    return out


def shards(tier):
    out = []
    if tier == "thorough":
        nrand, per, side = 16, 2500, 24
        plan = [("bin_f64", 20, 32), ("bin_i32", 16, 8), ("bin_u32", 12, 1), ("ter_i64", 10, 4), ("ter_nan_f32", 9, 2),
                ("ter_f64", 9, 2), ("ter_nan_f64", 9, 2)]
    else:
        nrand, per, side = 8, 800, 24
        plan = [("bin_f64", 12, 2), ("bin_i32", 12, 2), ("ter_i64", 9, 4), ("ter_nan_f32", 9, 4)]
    lay = ["F", "view", "ro"]
    for i in range(nrand):
        dts = [DTYPES[i % 5], DTYPES[(i + 2) % 5]]
        layouts = ["C", "C", lay[i % 3]]
        out.append(("rand#%d" % i, lambda ctx, dts=dts, layouts=layouts: drive_hypothesis(
            ctx, body_regions, regions_cases(side, dts, layouts), per, name="rand")))
    out.append(("regress_narrow_int_labels", lambda ctx: drive_enum(ctx, body_regions, regress_narrow_cases(),
                                                                  space="narrow-int label overflow fixtures", size=24)))
    for i, dts in enumerate([["int8", "uint8"], ["int16", "uint16"]]):
        out.append(("narrow#%d" % i, lambda ctx, dts=dts: drive_hypothesis(
            ctx, body_regions, narrow_cases(side, dts), per // 2, name="narrow")))
    out += enum_shards(tier, plan, body_regions, "regions", "n")
    return out


LEVEL_TEXT = ("Bounded-exhaustive plus randomised search: every 2-letter raster of every shape with <= 12 cells (quick) / <= 16 cells, one dtype <= 20 cells (thorough) and every "
              "3-letter raster (incl. NaN as a letter) with <= 9 cells (one variant <= 10 in thorough), both neighbourhoods, and thousands of random rasters up to 24x24 built from "
              "spiral / ring / comb / serpentine / checkerboard / diagonal / hole constructors over five dtypes, NaN densities, layouts and "
              "coordinate/attr variants, each compared with a flood-fill partition. Decides the property inside the enumerated spaces, samples it outside.")
LEVEL_NOTE = ("Assumes small integer values (never isclose to each other) in int8..int64/uint8..uint32/float32/float64, incl. more components than a narrow dtype can count; oracle is an independent flood fill; "
              "absence of violations beyond the enumerated sizes is sampled, not proven.")
TECHNIQUE = "property-based testing (Hypothesis, topology generators) + exhaustive small-raster enumeration against a flood-fill reference"
