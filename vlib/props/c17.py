"""C17 - local operators are per-cell functions of the layers, NaN-absorbing.

Every case is one dataset plus one configuration (data_vars for the operators
without a reference layer, ref_var + data_vars for the operators with one,
memory layout per layer).  The body calls every operator of xrspatial.local on
it and compares each output, cell by cell, with a brute-force evaluation of
the definition given in the property statement; then it re-runs everything on
a dataset whose cells were moved by a permutation (possibly into another H x W
factorisation) and demands that every output moved with them (locality).

`popularity` is a local operator but the statement gives no definition for
its value: only the clauses the statement makes about *every* local operator
are asserted for it (output has the raster's shape, a NaN in a data layer
makes the cell NaN, the cell's value moves with the cell).
"""
import itertools
import math
from fractions import Fraction

import numpy as np
from hypothesis import strategies as st

from .. import strategies as S
from ..core import R, dec_arr, drive_enum, drive_hypothesis

PROP = "C17"
RULE = ("Generator: xarray.Dataset of 2..6 equally shaped 2-D layers, H,W in 1..8 (1..12 thorough), ~80% non-square; layers float64/float32 "
        "(NaN at densities none/one cell/~15%/~50%) and/or int8..int64/uint8/uint16, values from a 1..4 letter alphabet out of small-int, signed, "
        "halves, non-float32, big-int, signed-zero and near-tie (1.0 vs 1.0000000000000002 vs 1.000001) palettes (ties between layers everywhere); variable names inserted in non-alphabetical "
        "order; data_vars None or an ordered subset (>= 2 layers, any order) drawn independently for the operators without and with a reference "
        "layer; ref_var at any position of the dataset, integer dtype, values in 1..k (k = number of selected data layers); per-layer memory "
        "layout C / Fortran / step-2 strided view / negative-stride view / slice of an (H,W,3) cube, in the classes allC, allF, mixed C+F, "
        "strided; a permutation of the cell positions into any factorisation H2 x W2 of H*W. Enumerations: every value tuple over a 3..5 letter "
        "alphabet (incl. NaN) for k = 2..6 layers x every ref value 1..k, under every data_vars order (k <= 4) and layout class; every ordered "
        "data_vars subset (>= 2 layers) x every ref_var choice on fixed 3..5 (thorough: 6) layer datasets. Oracle: per-cell brute force from "
        "the statement (exact rational arithmetic for sum/mean/median/std, comparisons for the rest, first-occurrence row-major numbering for "
        "combine). Non-trivial: the selected layers have a tie at a NaN-free cell AND a NaN cell (and a NaN-free cell) AND H != W AND an explicit "
        "data_vars list whose order differs from the dataset's; distinct by SHA-1 of the case (random) or enumeration index.")
ASSUMPTIONS = [
    "every call selects >= 2 data layers (np.nditer over one layer yields 0-d scalars: outside 'datasets of 2..6 layers'); operators with a "
    "reference layer therefore need a dataset of >= 3 variables",
    "the dataset has 2..6 variables in total, the reference layer included",
    "reference layers have an integer dtype and values in 1..k, k = number of data layers selected for that call",
    "layers are 2-D NumPy-backed; finite, NaN or (one case in six) +-inf cells; finite |v| <= 1e6",
    "first-occurrence order of combine is row-major (C) cell order",
    "popularity: value not asserted (the statement does not define it); only shape, NaN-absorption and locality",
]
BUDGET_S = {"quick": 150, "thorough": 1500}

EPS = 2.0 ** -52
STATS = ["sum", "mean", "median", "min", "max", "std"]
NAMES = ["n3", "n0", "n5", "n1", "n4", "n2"]
LAYOUTS = ["C", "F", "view", "neg", "last"]
INT_DTYPES = ["int64", "int32", "int16", "int8", "uint8", "uint16"]

PALETTES_F = {
    "small": [0, 1, 2, 3],
    "signed": S.PAL_SIGNED,
    "halves": S.PAL_HALVES,
    "nonf32": S.PAL_NONF32,
    "szero": [0.0, -0.0, 1.0, -1.0],
    # near-but-unequal neighbours of the small integers a reference layer holds (1..k) and of each other: "equal" means ==
    "near": [1.0, 1.0000000000000002, 1.000001, 0.9999999, 2.0, 2.00001, 1.9999999999999998, 3.0, 3.0000000001, 1e-9, 0.0, 0.30000000000000004, 0.3],
    "big": S.PAL_BIGINT,
}
PALETTES_I = {"small": [0, 1, 2, 3], "signed": S.PAL_SIGNED, "big": S.PAL_BIGINT, "onetwo": [1, 2]}


# ------------------------------------------------------------------ building

def _layout(a, layout):
    """Copy of `a` with the requested memory layout (values unchanged)."""
    if layout in ("C", "F", "view"):
        return S.apply_layout(a, layout)
    if layout == "neg":            # both strides negative
        big = np.ascontiguousarray(a[::-1, ::-1])
        return big[::-1, ::-1]
    if layout == "last":           # slice of an (H, W, 3) cube along the last axis
        cube = np.zeros(a.shape + (3,), dtype=a.dtype)
        cube[:, :, 1] = a
        return cube[:, :, 1]
    raise ValueError(layout)


def _build(spec, perm=None, pshape=None):
    import xarray as xr
    arrays = {}
    for ly in spec["layers"]:
        a = dec_arr(ly)
        if perm is not None:
            a = a.ravel()[np.asarray(perm, dtype=int)].reshape(pshape)
        arrays[ly["name"]] = _layout(a, ly.get("layout", "C"))
    ds = xr.Dataset({n: (("y", "x"), a) for n, a in arrays.items()})
    return ds, arrays


def _cells(arrays, names):
    """Row-major list of per-cell value tuples (Python scalars) of the named layers."""
    lists = [arrays[n].tolist() for n in names]
    h, w = arrays[names[0]].shape
    return [tuple(l[i][j] for l in lists) for i in range(h) for j in range(w)]


def _nan(x):
    return isinstance(x, float) and x != x


def _layout_class(arrs):
    c = [a.flags.c_contiguous for a in arrs]
    f = [a.flags.f_contiguous for a in arrs]
    if all(c):
        return "allC"
    if all(f):
        return "allF"
    if all(x or y for x, y in zip(c, f)):
        return "mixedCF"
    return "strided"


# -------------------------------------------------------------------- oracle

def _stats(t):
    if any(math.isinf(float(x)) for x in t):
        # +-inf cells are values like any other; their statistics follow IEEE arithmetic (inf + -inf = NaN)
        a = np.array([float(x) for x in t], dtype="float64")
        with np.errstate(all="ignore"):
            return {"sum": float(a.sum()), "mean": float(a.mean()), "median": float(np.median(a)), "min": float(a.min()), "max": float(a.max()),
                    "std": float(a.std())}
    fr = [Fraction(x) for x in t]
    n = len(fr)
    s = sum(fr)
    mean = s / n
    srt = sorted(fr)
    med = srt[n // 2] if n % 2 else (srt[n // 2 - 1] + srt[n // 2]) / 2
    var = sum((x - mean) ** 2 for x in fr) / n
    return {"sum": float(s), "mean": float(mean), "median": float(med), "min": float(srt[0]), "max": float(srt[-1]),
            "std": math.sqrt(var)}


def _first_min(t):
    b = 0
    for i in range(1, len(t)):
        if t[i] < t[b]:
            b = i
    return b + 1


def _first_max(t):
    b = 0
    for i in range(1, len(t)):
        if t[i] > t[b]:
            b = i
    return b + 1


NANF = float("nan")


def _expected(cells, refs):
    """op -> flat list of expected values (NaN where a data layer is NaN)."""
    exp = {}
    bad = [any(_nan(x) for x in t) for t in cells]
    st_ = [None if b else _stats(t) for t, b in zip(cells, bad)]
    for f in STATS:
        exp["cell_stats." + f] = [NANF if s is None else s[f] for s in st_]
    exp["lowest_position"] = [NANF if b else _first_min(t) for t, b in zip(cells, bad)]
    exp["highest_position"] = [NANF if b else _first_max(t) for t, b in zip(cells, bad)]
    if refs is not None:
        exp["lesser_frequency"] = [NANF if b else sum(1 for x in t if x < r) for t, b, r in zip(cells, bad, refs)]
        exp["equal_frequency"] = [NANF if b else sum(1 for x in t if x == r) for t, b, r in zip(cells, bad, refs)]
        exp["greater_frequency"] = [NANF if b else sum(1 for x in t if x > r) for t, b, r in zip(cells, bad, refs)]
        exp["rank"] = [NANF if b else sorted(t)[r - 1] for t, b, r in zip(cells, bad, refs)]
    return exp, bad


def _tol(op, t):
    """Absolute tolerance for the float statistics: NumPy adds <= 6 numbers in double precision, error <= (n-1)*eps*sum|t|
    <= 36*eps*max|t|; mean/std inherit it (std of nearly equal numbers is absolute-error dominated).  Everything else is exact."""
    if op in ("cell_stats.sum", "cell_stats.mean", "cell_stats.std") or (op == "cell_stats.median" and len(t) % 2 == 0):
        return 64 * EPS * max(1e-300, max(abs(float(x)) for x in t))
    return 0.0


def _as_float_grid(out):
    g = np.asarray(out.values if hasattr(out, "values") else out)
    return g, g.astype("float64") if g.dtype != object else np.array(g.tolist(), dtype="float64")


def _mismatch(op, gflat, exp, cells, bad):
    """-> (nan_absorb cells, spurious-NaN cells, wrong-value cells)"""
    na, ns, wv = [], [], []
    for i, (g, e) in enumerate(zip(gflat, exp)):
        gn = g != g
        if op.startswith("cell_stats.") and any(isinstance(x, float) and math.isinf(x) for x in cells[i]):
            # a statistic of infinite values follows IEEE arithmetic (inf - inf = NaN, std of inf = NaN): equal, or both NaN
            if not ((gn and e != e) or g == e):
                wv.append(i)
            continue
        if bad[i]:
            if not gn:
                na.append(i)
        elif gn:
            ns.append(i)
        elif not (g == e or abs(g - e) <= _tol(op, cells[i])):
            wv.append(i)
    return na, ns, wv


TIE_OPS = ("lowest_position", "highest_position", "lesser_frequency", "equal_frequency", "greater_frequency", "rank")


def _rearranged(flat, exp):
    """Same multiset of values (NaN count included) at other positions: the cells were visited in another order."""
    a = sorted(x for x in flat if x == x)
    b = sorted(float(x) for x in exp if x == x)
    return len(a) == len(b) and len(flat) >= 2 and all(abs(x - y) <= 1e-9 * max(1.0, abs(y)) for x, y in zip(a, b))


def _check_op(r, op, out, exp, cells, bad, refs, h, w, tag):
    """Compare one operator output with the oracle; returns the flat float output or None."""
    g, gf = _as_float_grid(out)
    if g.shape != (h, w):
        r.fail(op + ".shape", "%s output shape %s for %dx%d layers" % (tag, g.shape, h, w))
        return None
    flat = gf.ravel().tolist()
    na, ns, wv = _mismatch(op, flat, exp, cells, bad)
    if not (na or ns or wv):
        return flat
    where = (na or ns or wv)[0]
    msg = "%s %dx%d cell %s: layers=%s ref=%s got=%r expected=%r" % (
        tag, h, w, divmod(where, w), cells[where], None if refs is None else refs[where], flat[where], exp[where])
    if h > 1 and w > 1:
        un = gf.ravel().reshape(w, h).T.ravel().tolist()
        if not any(_mismatch(op, un, exp, cells, bad)):
            r.fail(op + ".cell_order[output = oracle walked in column-major (memory) order]", msg)
            return flat
    if _rearranged(flat, exp):
        r.fail(op + ".cell_order[output is a rearrangement of the oracle's cells]", msg)
    elif na:
        r.fail(op + ".nan_absorb[NaN in a data layer, output not NaN]", msg)
    elif ns:
        r.fail(op + ".nan_spurious[no NaN in the data layers, output NaN]", msg)
    elif op in TIE_OPS:
        def tie(i):
            t = cells[i]
            return len(set(t)) < len(t) or (refs is not None and refs[i] in t)
        r.fail(op + (".value[only at cells with a tie]" if all(tie(i) for i in wv) else ".value"), msg)
    else:
        r.fail(op + ".value", msg)
    return flat


def _combine_problem(gflat, key, cells, bad):
    """None if the combine output is right, else (kind, message)."""
    seen = {}
    ids = {}
    for i, (g, t) in enumerate(zip(gflat, cells)):
        gn = g != g
        if bad[i]:
            if not gn:
                return "nan_absorb[NaN in a data layer, id not NaN]", "cell#%d layers=%s id=%r" % (i, t, g)
            continue
        if gn:
            return "nan_spurious[no NaN in the data layers, id NaN]", "cell#%d layers=%s" % (i, t)
        if t in seen:
            if seen[t] != g:
                return "partition[equal tuples, different ids]", "cell#%d layers=%s id=%r, earlier id %r" % (i, t, g, seen[t])
        else:
            if g in ids:
                return "partition[different tuples, same id]", "cell#%d layers=%s id=%r also used for %s" % (i, t, g, ids[g])
            seen[t] = g
            ids[g] = t
    order = list(seen.values())
    if order != list(range(1, len(order) + 1)):
        return "numbering[ids not 1.. in first-occurrence row-major order]", "ids in first-occurrence order: %s" % order[:20]
    if key is None:
        return "key[attrs['key'] missing]", "no 'key' in attrs"
    try:
        kk = {int(k): tuple(v) for k, v in dict(key).items()}
    except Exception as e:  # noqa
        return "key[not an id -> tuple mapping]", "%r (%s)" % (key, e)
    want = {int(g): t for g, t in ids.items()}
    if kk != want:
        return "key[id -> tuple mapping wrong]", "key=%s expected=%s" % (kk, want)
    return None


def _check_combine(r, out, cells, bad, h, w, tag):
    g, gf = _as_float_grid(out)
    if g.shape != (h, w):
        r.fail("combine.shape", "%s output shape %s for %dx%d layers" % (tag, g.shape, h, w))
        return None
    key = out.attrs.get("key") if hasattr(out, "attrs") else None
    flat = gf.ravel().tolist()
    p = _combine_problem(flat, key, cells, bad)
    if p is None:
        return flat
    if h > 1 and w > 1 and p[0].startswith(("partition", "nan_")):
        # cells in the wrong places, but a consistent partition once the column-major walk is undone
        un = gf.ravel().reshape(w, h).T.ravel().tolist()
        q = _combine_problem(un, key, cells, bad)
        if q is None or q[0].startswith(("numbering", "key")):
            r.fail("combine.cell_order[output = oracle walked in column-major (memory) order]", "%s %dx%d %s" % (tag, h, w, p[1]))
            return flat
    r.fail("combine." + p[0], "%s %dx%d %s" % (tag, h, w, p[1]))
    return flat


# ---------------------------------------------------------------------- body

def _run_ops(r, spec, ds, arrays, tag, labels):
    """Call every operator on ds and check it against the oracle.  Returns {op: row-major list of per-cell outputs}
    (for combine: the key tuple of the cell's id) for the locality relation."""
    from xrspatial import local
    order = [ly["name"] for ly in spec["layers"]]
    h, w = arrays[order[0]].shape
    outs = {}
    only = spec.get("only")
    if only != "ref":
        dv = spec.get("dv_all")
        use = list(dv) if dv else order
        cells = _cells(arrays, use)
        exp, bad = _expected(cells, None)
        if labels:
            _label_sel(r, "all", spec, use, order, arrays, cells, bad)
        arg = list(dv) if dv else None
        for f in STATS:
            o = local.cell_stats(ds, data_vars=arg, func=f) if arg else (local.cell_stats(ds) if f == "sum" else local.cell_stats(ds, func=f))
            outs["cell_stats." + f] = _check_op(r, "cell_stats." + f, o, exp["cell_stats." + f], cells, bad, None, h, w, tag)
        for nm, fn in (("lowest_position", local.lowest_position), ("highest_position", local.highest_position)):
            o = fn(ds, data_vars=arg) if arg else fn(ds)
            outs[nm] = _check_op(r, nm, o, exp[nm], cells, bad, None, h, w, tag)
        o = local.combine(ds, data_vars=arg) if arg else local.combine(ds)
        flat = _check_combine(r, o, cells, bad, h, w, tag)
        if flat is not None:
            key = o.attrs.get("key") or {}
            outs["combine"] = [NANF if g != g else tuple(key.get(int(g), ("?", g))) for g in flat]
    ref = spec.get("ref")
    if ref is not None and only != "all":
        dv = spec.get("dv_ref")
        use = list(dv) if dv else [n for n in order if n != ref]
        cells = _cells(arrays, use)
        refs = [t[0] for t in _cells(arrays, [ref])]
        exp, bad = _expected(cells, refs)
        if labels:
            _label_sel(r, "ref", spec, use, order, arrays, cells, bad)
            r.label("ref_dtype=%s" % arrays[ref].dtype, "refpos=%s" % (
                "first" if order[0] == ref else "last" if order[-1] == ref else "middle"))
        arg = list(dv) if dv else None
        fl = {}
        for nm, fn in (("lesser_frequency", local.lesser_frequency), ("equal_frequency", local.equal_frequency),
                       ("greater_frequency", local.greater_frequency), ("rank", local.rank)):
            o = fn(ds, ref, data_vars=arg) if arg else fn(ds, ref)
            fl[nm] = outs[nm] = _check_op(r, nm, o, exp[nm], cells, bad, refs, h, w, tag)
        if all(fl[n] is not None for n in ("lesser_frequency", "equal_frequency", "greater_frequency")):
            for i, b in enumerate(bad):
                if not b:
                    tot = fl["lesser_frequency"][i] + fl["equal_frequency"][i] + fl["greater_frequency"][i]
                    if tot != len(use):
                        r.fail("frequency.sum_ne_layer_count", "%s cell#%d layers=%s ref=%s lesser+equal+greater=%r, %d layers" % (
                            tag, i, cells[i], refs[i], tot, len(use)))
                        break
        # popularity: value undefined by the statement -> shape + NaN-absorption only (+ locality in the caller)
        o = local.popularity(ds, ref, data_vars=arg) if arg else local.popularity(ds, ref)
        g, gf = _as_float_grid(o)
        if g.shape != (h, w):
            r.fail("popularity.shape", "%s output shape %s for %dx%d layers" % (tag, g.shape, h, w))
        else:
            flat = gf.ravel().tolist()
            for i, b in enumerate(bad):
                if b and flat[i] == flat[i]:
                    r.fail("popularity.nan_absorb[NaN in a data layer, output not NaN]", "%s cell#%d layers=%s got=%r" % (tag, i, cells[i], flat[i]))
                    break
            outs["popularity"] = flat
    return outs


def _label_sel(r, which, spec, use, order, arrays, cells, bad):
    arrs = [arrays[n] for n in use]
    kinds = set(a.dtype.kind for a in arrs)
    r.label("%s:k=%d" % (which, len(use)),
            "%s:kind=%s" % (which, "float" if kinds == {"f"} else "mixed" if "f" in kinds else "int"),
            "%s:layout=%s" % (which, _layout_class(arrs)))
    dv = spec.get("dv_" + which)
    natural = [n for n in order if n in use]
    r.label("%s:data_vars=%s" % (which, "None" if not dv else "dataset_order" if list(dv) == natural else "reordered"))
    if any(bad):
        r.label("%s:nan_cells" % which)
    unsel = [n for n in order if n not in use and n != (spec.get("ref") if which == "ref" else None)]
    if any(arrays[n].dtype.kind == "f" and np.isnan(arrays[n]).any() for n in unsel):
        r.label("%s:nan_in_unselected_layer" % which)


def _nontrivial(spec, arrays):
    order = [ly["name"] for ly in spec["layers"]]
    h, w = arrays[order[0]].shape
    if h == w:
        return False, {}
    sels = []
    if spec.get("only") != "ref":
        sels.append((spec.get("dv_all"), list(spec.get("dv_all") or order)))
    if spec.get("ref") is not None and spec.get("only") != "all":
        sels.append((spec.get("dv_ref"), list(spec.get("dv_ref") or [n for n in order if n != spec["ref"]])))
    tie = nan = reord = False
    for dv, use in sels:
        cells = _cells(arrays, use)
        bad = [any(_nan(x) for x in t) for t in cells]
        if any(bad) and not all(bad):
            nan = True
        if any((not b) and len(set(t)) < len(t) for t, b in zip(cells, bad)):
            tie = True
        if dv and list(dv) != [n for n in order if n in use]:
            reord = True
    return (tie and nan and reord), {"tie": tie, "nan": nan, "reord": reord}


def _run(spec):
    r = R()
    ds, arrays = _build(spec)
    order = [ly["name"] for ly in spec["layers"]]
    h, w = arrays[order[0]].shape
    r.nt, parts = _nontrivial(spec, arrays)
    r.label("L=%d" % len(order), "shape=%s" % ("1x1" if h == w == 1 else "square" if h == w else "1xN" if h == 1 else "Nx1" if w == 1 else "nonsquare"),
            "layout=" + _layout_class([arrays[n] for n in order]))
    for k_, v in parts.items():
        if v:
            r.label("has_" + k_)
    r.label("ops=" + ("no_ref_only" if spec.get("ref") is None or spec.get("only") == "all" else
                      "ref_only" if spec.get("only") == "ref" else "both"))
    for n in order:       # the layout asked for must have survived Dataset construction
        if not np.shares_memory(ds[n].data, arrays[n]):
            r.fail("harness.layout_lost", "xarray copied layer %s" % n)
    outs = _run_ops(r, spec, ds, arrays, "original", True)
    perm = spec.get("perm")
    if perm is not None and not r.fails:
        ph, pw = spec.get("pshape") or [h, w]
        r.label("perm:%s" % ("same_shape" if (ph, pw) == (h, w) else "other_shape"))
        ds2, arrays2 = _build(spec, perm, (ph, pw))
        outs2 = _run_ops(r, spec, ds2, arrays2, "permuted", False)
        if not r.fails:
            for op, a in outs.items():
                b = outs2.get(op)
                if a is None or b is None:
                    continue
                for j, pj in enumerate(perm):
                    x, y = b[j], a[pj]
                    if not (x == y or (_nan(x) and _nan(y))):
                        r.fail("locality." + op, "cell %d of the original moved to position %d of a %dx%d raster: output %r became %r" % (
                            pj, j, ph, pw, y, x))
                        break
    return r


def body_ops(case, ctx):
    return _run(case)


# ------------------------------------------------- enumeration: value tuples

def _fit_layouts(mode, n):
    if mode == "allC":
        return ["C"] * n
    if mode == "allF":
        return ["F"] * n
    if mode == "mixed":
        return [("F" if i % 2 == 0 else "C") for i in range(n)]
    if mode == "view":
        return ["view"] * n
    if mode == "neg":
        return ["neg"] * n
    if mode == "last":
        return ["last"] * n
    raise ValueError(mode)


def expand_tuples(case):
    k, alpha, dtype = case["k"], case["alpha"], case["dtype"]
    m = len(alpha)
    with_ref = k <= 5
    ncell = m ** k * (k if with_ref else 1)
    h, w = case["shape"]
    assert h * w == ncell, (h, w, ncell)
    cols = [[alpha[(c // m ** i) % m] for c in range(ncell)] for i in range(k)]
    names = ["v%d" % i for i in range(k)]
    lay = _fit_layouts(case["layout"], k + 1)
    layers = [{"name": names[i], "dtype": dtype, "layout": lay[i],
               "data": [cols[i][rr * w:(rr + 1) * w] for rr in range(h)]} for i in range(k)]
    dv = [names[i] for i in case["order"]]
    spec = {"sub": "ops", "layers": layers, "dv_all": dv, "ref": None}
    if with_ref:
        refcol = [c // m ** k + 1 for c in range(ncell)]
        layers.insert(k // 2, {"name": "r", "dtype": "int64", "layout": lay[k],
                               "data": [refcol[rr * w:(rr + 1) * w] for rr in range(h)]})
        spec.update(ref="r", dv_ref=dv)
    if case.get("perm") == "rev":
        spec["perm"] = list(range(ncell - 1, -1, -1))
        spec["pshape"] = [w, h]
    return spec


def body_tuples(case, ctx):
    return _run(expand_tuples(case))


TUPLE_SPACES = {  # k -> (float alphabet, int alphabet, shape with ref / shape)
    2: ([0.0, 1.0, 2.0, 3.0, "nan"], [0, 1, 2, 3], (5, 10), (4, 8)),
    3: ([0.0, 1.0, 2.0, "nan"], [0, 1, 2], (12, 16), (9, 9)),      # 9x9: a square control case
    4: ([0.0, 1.0, 2.0, "nan"], [0, 1, 2], (16, 64), (12, 27)),
    5: ([0.0, 1.0, "nan"], [0, 1], (27, 45), (10, 16)),
    6: ([0.0, 1.0, "nan"], [0, 1], (9, 81), (4, 16)),
}


def _orders(k, full):
    """data_vars orders: all k! for k <= 4; for k = 5, 6 a fixed handful (quick) or an evenly spaced ~20 of the k! (thorough)."""
    if k <= 4:
        return [list(p) for p in itertools.permutations(range(k))]
    ident = list(range(k))
    hand = [ident, ident[::-1], ident[1:] + ident[:1], ident[-1:] + ident[:-1],
            [(i ^ 1) if (i ^ 1) < k else i for i in ident], ident[k // 2:] + ident[:k // 2]]
    if not full:
        return hand[:6 if k == 5 else 4]
    step = 7 if k == 5 else 37
    return hand + [list(p) for p in itertools.islice(itertools.permutations(range(k)), 3, None, step) if list(p) not in hand]


def tuple_cases(k, layouts, dtypes, full=False, perm_upto=3):
    fa, ia, fshape, ishape = TUPLE_SPACES[k]
    for dt in dtypes:
        alpha = fa if dt.startswith("float") else ia
        shape = fshape if dt.startswith("float") else ishape
        for lay in layouts:
            for order in _orders(k, full):
                yield {"sub": "tuples", "k": k, "alpha": alpha, "order": order, "layout": lay, "dtype": dt, "shape": list(shape),
                       "perm": "rev" if k <= perm_upto else None}


def _shapes_ok():
    for k, (fa, ia, fs, is_) in TUPLE_SPACES.items():
        for alpha, shp in ((fa, fs), (ia, is_)):
            n = len(alpha) ** k * (k if k <= 5 else 1)
            assert shp[0] * shp[1] == n, (k, alpha, shp, n)


_shapes_ok()


# ----------------------------------------- enumeration: data_vars / ref_var

INT_POS = {3: [0, 2], 4: [0, 3], 5: [0, 2, 4], 6: [0, 3, 5]}
CONFIG_VARIANTS = [((2, 3), "allC"), ((3, 2), "allF"), ((1, 4), "mixed"), ((4, 2), "view"), ((3, 1), "neg"), ((2, 4), "last")]


def expand_config(case):
    L, v = case["L"], case["variant"]
    (h, w), mode = CONFIG_VARIANTS[v]
    lay = _fit_layouts(mode, L)
    layers = []
    for i in range(L):
        if i in INT_POS[L]:
            data = [[1 + ((rr * 3 + c * 5 + i + v) % 2) for c in range(w)] for rr in range(h)]
            layers.append({"name": NAMES[i], "dtype": ["int64", "int32", "uint8"][i % 3], "layout": lay[i], "data": data})
        else:
            data = [["nan" if (rr + 2 * c + i + v) % 5 == 0 else ((rr * 7 + c * 3 + i * 5 + v) % 4) * (0.5 if i == 1 else 1.0)
                     for c in range(w)] for rr in range(h)]
            layers.append({"name": NAMES[i], "dtype": "float32" if i == 4 else "float64", "layout": lay[i], "data": data})
    spec = {"sub": "ops", "layers": layers, "perm": list(range(h * w - 1, -1, -1)), "pshape": [w, h]}
    dv = None if case["dv"] is None else [NAMES[i] for i in case["dv"]]
    if case["ref"] is None:
        spec.update(ref=None, dv_all=dv, only="all")
    else:
        spec.update(ref=NAMES[case["ref"]], dv_ref=dv, only="ref")
    return spec


def body_config(case, ctx):
    return _run(expand_config(case))


def _ordered_subsets(items):
    yield None
    for size in range(2, len(items) + 1):
        for p in itertools.permutations(items, size):
            yield list(p)


def config_cases(L, variant, lo=0, hi=None):
    def gen():
        for dv in _ordered_subsets(list(range(L))):
            yield {"sub": "config", "L": L, "variant": variant, "ref": None, "dv": dv}
        for ref in INT_POS[L]:
            for dv in _ordered_subsets([i for i in range(L) if i != ref]):
                yield {"sub": "config", "L": L, "variant": variant, "ref": ref, "dv": dv}
    return itertools.islice(gen(), lo, hi)


def config_size(L):
    def nsub(n):
        return 1 + sum(math.perm(n, s) for s in range(2, n + 1))
    return nsub(L) + len(INT_POS[L]) * nsub(L - 1)


BODIES = {"ops": body_ops, "tuples": body_tuples, "config": body_config}


# ---------------------------------------------------------------- strategies

def _fits(dtype, vals):
    if dtype.startswith("float"):
        return True
    info = np.iinfo(dtype)
    return all(info.min <= v <= info.max for v in vals)


@st.composite
def _shape(draw, max_side):
    h = draw(st.integers(1, max_side))
    if draw(st.integers(0, 5)) == 0:
        return h, h
    w = draw(st.sampled_from([x for x in range(1, max_side + 1) if x != h]))
    return h, w


@st.composite
def _subset(draw, names):
    """None, or an ordered subset of >= 2 names in any order."""
    if draw(st.integers(0, 4)) == 0:
        return None
    sel = draw(st.lists(st.sampled_from(names), min_size=2, max_size=len(names), unique=True))
    if draw(st.booleans()) and sel == [x for x in names if x in sel]:
        sel = sel[::-1]          # half of the time make sure the order is not the dataset's
    return sel


@st.composite
def ops_cases(draw, max_side, layout_modes=None):
    h, w = draw(_shape(max_side))
    n = h * w
    L = draw(st.sampled_from([2, 3, 3, 4, 4, 5, 6]))
    names = list(draw(st.permutations(NAMES)))[:L]
    kind = draw(st.sampled_from(["float", "float", "float", "float", "mixed", "mixed", "mixed", "int"]))
    pals = PALETTES_I if kind == "int" else PALETTES_F
    pal = pals[draw(st.sampled_from(sorted(pals)))]
    alpha = draw(st.lists(st.sampled_from(pal), min_size=1, max_size=4, unique=True))
    int_alpha = [v for v in alpha if float(v) == int(v)] or [0, 1]
    int_alpha = sorted(set(int(v) for v in int_alpha))
    with_inf = draw(st.integers(0, 5)) == 0     # +-inf cells in the float layers (a cell may hold +inf in one layer and -inf in another)
    mode = draw(st.sampled_from(layout_modes or (["allC"] * 5 + ["allF"] * 3 + ["mixed"] * 3 + ["view", "neg", "last", "any", "any"])))
    layers = []
    for i, nm in enumerate(names):
        is_f = kind == "float" or (kind == "mixed" and (i == 0 or draw(st.booleans())))
        if is_f:
            dtype = draw(st.sampled_from(["float64", "float64", "float32"]))
            data = draw(S.grid(h, w, alpha, specials=["nan", "inf", "-inf"] if with_inf else ["nan"]))
        else:
            dtype = draw(st.sampled_from([d for d in INT_DTYPES if _fits(d, int_alpha)]))
            data = draw(S.grid(h, w, int_alpha))
        if mode in ("allC", "allF", "view", "neg", "last"):
            lay = {"allC": "C", "allF": "F"}.get(mode, mode)
        elif mode == "mixed":
            lay = draw(st.sampled_from(["C", "F"]))
        else:
            lay = draw(st.sampled_from(LAYOUTS))
        layers.append({"name": nm, "dtype": dtype, "layout": lay, "data": data})
    if mode == "mixed" and L >= 2:      # really mixed: first two layers differ
        layers[0]["layout"], layers[1]["layout"] = "F", "C"
    case = {"sub": "ops", "layers": layers, "dv_all": draw(_subset(names)), "ref": None}
    if L >= 3 and draw(st.integers(0, 9)) > 0:
        ri = draw(st.integers(0, L - 1))
        others = [nm for nm in names if nm != names[ri]]
        dv_ref = draw(_subset(others))
        k = len(dv_ref or others)
        rdt = draw(st.sampled_from(["int64", "int64", "int32", "int16", "int8", "uint8"]))
        flat = draw(st.lists(st.integers(1, k), min_size=n, max_size=n))
        layers[ri] = {"name": names[ri], "dtype": rdt, "layout": layers[ri]["layout"],
                      "data": [flat[i * w:(i + 1) * w] for i in range(h)]}
        case.update(ref=names[ri], dv_ref=dv_ref)
    case["perm"] = list(draw(st.permutations(list(range(n)))))
    case["pshape"] = list(draw(st.sampled_from([(a, n // a) for a in range(1, n + 1) if n % a == 0])))
    return case


# -------------------------------------------------------------------- shards

def shards(tier):
    out = []
    thorough = tier == "thorough"
    nrand, per, side = (16, 6000, 12) if thorough else (12, 900, 8)
    for i in range(nrand):
        out.append(("rand#%d" % i, lambda ctx, i=i: drive_hypothesis(ctx, body_ops, ops_cases(side), per)))
    # non-C layouts only: the class the Fortran-order repair (9652984) is about
    nlay, perl = (8, 4000) if thorough else (4, 600)
    for i in range(nlay):
        out.append(("layout#%d" % i, lambda ctx, i=i: drive_hypothesis(
            ctx, body_ops, ops_cases(side, ["allF", "allF", "mixed", "mixed", "view", "neg", "last", "any"]), perl)))

    def tup(ctx, k, layouts, dtypes, full=False):
        cases = list(tuple_cases(k, layouts, dtypes, full))
        drive_enum(ctx, body_tuples, cases, size=len(cases),
                   space="value tuples k=%d x %s x %d data_vars orders x layouts %s x %s" % (
                       k, "ref 1..k" if k <= 5 else "no ref operators (6 variables in all)", len(_orders(k, full)),
                       "/".join(layouts), "/".join(dtypes)))

    def cfg(ctx, L, variant, lo=0, hi=None):
        size = (hi if hi is not None else config_size(L)) - lo
        drive_enum(ctx, body_config, config_cases(L, variant, lo, hi), size=size,
                   space="ordered data_vars subsets (>= 2) x ref_var, L=%d, %dx%d %s [%d,%s)" % (
                       (L,) + CONFIG_VARIANTS[variant][0] + (CONFIG_VARIANTS[variant][1], lo, hi if hi is not None else size)))

    all_lay = ["allC", "allF", "mixed", "view", "neg", "last"]

    def seq(*steps):
        def run(ctx):
            for f, args in steps:
                f(ctx, *args)
        return run

    if thorough:
        dts = ["float64", "float32", "int64", "int8"]
        out.append(("enum_tuples_k2k3", seq((tup, (2, all_lay, dts)), (tup, (3, all_lay, dts)))))
        out.append(("enum_tuples_k4#0", seq((tup, (4, all_lay[:3], ["float64", "int32"])))))
        out.append(("enum_tuples_k4#1", seq((tup, (4, all_lay[3:], ["float64", "int32"])))))
        out.append(("enum_tuples_k5", seq((tup, (5, all_lay[:4], ["float64", "int64"], True)))))
        out.append(("enum_tuples_k6", seq((tup, (6, all_lay[:4], ["float64", "int64"], True)))))
        out.append(("enum_config_L345", seq(*[(cfg, (L, v)) for v in range(len(CONFIG_VARIANTS)) for L in (3, 4, 5)])))
        tot = config_size(6)
        out.append(("enum_config_L6#0", seq((cfg, (6, 0)), (cfg, (6, 2, 0, tot // 2)), (cfg, (6, 3, tot // 2, tot)))))
        out.append(("enum_config_L6#1", seq((cfg, (6, 1)), (cfg, (6, 2, tot // 2, tot)), (cfg, (6, 3, 0, tot // 2)))))
    else:
        out.append(("enum_tuples_k2k3", seq((tup, (2, all_lay, ["float64", "int64"])), (tup, (3, all_lay, ["float64", "int8"])))))
        out.append(("enum_tuples_k4", seq((tup, (4, ["allC", "allF", "mixed"], ["float64"])))))
        out.append(("enum_tuples_k5k6", seq((tup, (5, ["allC", "allF"], ["float64"])), (tup, (6, ["allC", "allF", "mixed"], ["float64"])))))
        out.append(("enum_config", seq(*([(cfg, (L, v)) for v in (0, 1, 2, 3) for L in (3, 4)] + [(cfg, (5, 0)), (cfg, (5, 1))]))))
    return out


LEVEL_TEXT = ("Randomised (Hypothesis) plus bounded-exhaustive search. Every operator of xrspatial.local is run on generated datasets of 2..6 "
              "layers (non-square shapes, ties, NaN, int/float dtypes, data_vars subsets in any order, ref_var at any position, C / Fortran / "
              "mixed / strided memory layouts) and compared cell by cell with a brute-force evaluation of the definitions in the statement; "
              "a cell permutation into another H x W factorisation must move every output with it. Exhaustive parts: every value tuple over "
              "small alphabets (with NaN) for 2..6 layers x every reference value, under every data_vars order (k <= 4) and layout class; "
              "every ordered data_vars subset x ref_var choice of fixed 3..6 layer datasets. Decides the property inside the enumerated "
              "spaces, samples it outside.")
LEVEL_NOTE = ("Oracle is independent of the code (exact rationals / comparisons per cell). popularity's value is not in the statement and is "
              "not asserted (only shape, NaN-absorption, locality). Assumes >= 2 selected data layers, <= 6 variables, integer reference "
              "values in 1..k, finite-or-NaN values; absence of violations outside the enumerated spaces is sampled, not proven.")
TECHNIQUE = ("property-based testing (Hypothesis) + exhaustive enumeration of per-cell value tuples and of data_vars/ref_var configurations "
             "against a per-cell reference model, plus a cell-permutation metamorphic relation")
