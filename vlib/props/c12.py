"""C12 - classifiers label every finite cell, in order, within [0, k-1]  (NumPy backend).

Sub-properties (one body each, failures bucketed by sub-property + discriminating predicate):
  binary          NaN rule; 1 exactly on the listed values, 0 on every other finite cell
  reclassify      NaN rule (NaN only above the last bin); new value of the first bin whose upper bound is >= v
  reclass_sweep   the same rule, bounded-exhaustive: every bin count n, every position of a value relative to every bin
  equal_interval  NaN rule; integers in [0,k-1]; order; class = i-th of k equal-width intervals of [min,max] (rounding band)
  quantile        NaN rule; integers in [0,k-1]; order; class inside the interval allowed by the exact-rational percentile bands
  natural_breaks  NaN rule; integers in [0,k-1]; order; within-class SSD of the returned partition <= optimum + forward bound

Notes that justify the oracles
* equal_interval: the exact label is clip(ceil((v-min)/w)-1, 0, k-1), w=(max-min)/k.  The code builds its cuts as
  start + i*delta in the precision of the data (float32 rasters: float32), so a cut can sit
  (k+2) ulp(max|v|) + 2 k eps w away from min + i w.  Cells whose (v-min)/w is within twice that bound (relative to w) of an
  integer are skipped and counted as ambiguous.  When min, max and w are dyadic rationals small enough that every
  intermediate is exactly representable in that precision, no rounding can occur, the band is zero, and a value ON a cut
  belongs to the lower interval (upper bound >= value: the convention of reclassify, needed for max to fall in class k-1).
* quantile: interval oracle, see oracles/classify.py and DESIGN section 11.
* natural_breaks: splitting equal values between two classes never helps when there are >= k distinct values (the cost is
  concave in the number of tied points moved, and a class holding only copies of a value that also occurs in its neighbour
  can be merged, freeing a class that strictly lowers the cost elsewhere), so the optimum over index-level partitions of
  the sorted sample equals the optimum over value-level partitions and is a lower bound for any labelling.  The code's
  DP evaluates the cost of a class as sum(d^2) - sum(d)^2/m in float64 on d = v - (largest member of the class)
  (/repo b0d9b84).  With m members and range R: sum(d^2) <= SSD + m R^2 and SSD >= R^2/2, so the forward error
  (3m+5) eps sum(d^2) is at most delta = (3n+5)(2n+1) eps64 RELATIVE to the class's own cost, whatever the offset of the
  data.  Every partition is therefore costed within a factor (1 +- delta); a non-constant class can never evaluate to <= 0
  (no empty classes, so the break extraction returns the DP's partition), and the partition returned costs at most
  (1+delta)/(1-delta) times the optimum.  Tolerance: relative 4 delta + 4 k eps64 + 1e-12 (1.3e-11 for 100 cells,
  1.4e-8 for 1600); if that exceeded 1e-6 (beyond ~10^4 cells) the assertion would be skipped and counted as ambiguous.
"""
import contextlib
import io
from fractions import Fraction as Fr

import numpy as np
from hypothesis import strategies as st

from ..core import R, dec_arr, dec_list, drive_enum, drive_hypothesis
from ..oracles import classify as O

PROP = "C12"
RULE = ("Generator: rasters <= 10x10 (quick) / up to 30x30, 40x40 for natural_breaks (thorough) in float64/float32/int64/int32/int16/uint8 over a drawn "
        "value pool (ties by construction: small ints, signed, quarters, decimals not representable in float32 (0.1 i, x/1000, 1e6 + x/1000, x/1000 up to 1e6), "
        "odd integers above 2^24, arithmetic progressions that put a value on every equal-interval cut), NaN/+inf/-inf cells at drawn densities "
        "(none, one, ~1/7, ~1/2, all but one); k in 2..40 on both sides of the number of distinct values; natural_breaks fitted on the whole raster "
        "(num_sample default / None / >= size) or on a sample (invariants only); ascending bin lists of length 1..12 (strict, one or many equal neighbours, "
        "+inf tail; int / half / decimal / mixed) with arbitrary new_values and cells on, next to and between the bins; value lists for binary; plus the "
        "exhaustive reclassify sweep (every bin count n <= 64 quick / 256 thorough, one raster holding every value below / on / between / above every bin, "
        "six dtypes, strict / float-offset / decimal / paired-duplicate bin lists, and one duplicated neighbour at every position d). "
        "Oracles: NaN rule; integer labels in [0,k-1]; order preservation; binary membership; first-bin rule; equal-width formula with a derived rounding "
        "band (zero when the arithmetic is exact); exact-rational percentile interval; Jenks optimum by an independent float64 DP (brute force below 14 values) "
        "with a forward error bound. Non-trivial: data-driven classifiers - at least k distinct finite values; reclassify - a cell on a bin boundary or a "
        "non-finite cell, and >= 2 different bins hit; binary - a listed and an unlisted finite cell; sweep cases are all non-trivial. Distinct by SHA-1 of "
        "the case (random) or enumeration index (sweep). The classes of the six defects this check found (all repaired in /repo) are part of the main generators, "
        "labelled (k_float_arange=..., narrow_int_neighbour_gap_gt_dtype_max, sample=..., large_offset_close_values), and pinned by the four "
        "regress_* shards.")
ASSUMPTIONS = ["NumPy backend only (Dask/CuPy equivalence is C01)",
               "equal_interval: at least two distinct finite values (max > min) and class width >= 64 ulp of the largest magnitude",
               "quantile / natural_breaks: at least one finite cell",
               "bin lists ascending, finite except an optional +inf tail; new_values finite; binary value lists finite and non-empty",
               "magnitudes <= 1e9 so every integer/float involved is exact in float64",
               "natural_breaks optimality: distinct values differ by >= 1e-150 (their squared difference does not underflow in float64)",
               "reclassify output is float32 by documented convention: a new value is compared after rounding to float32"]
BUDGET_S = {"quick": 200, "thorough": 1200}

DTYPES6 = ["float64", "float32", "int64", "int32", "int16", "uint8"]
SWEEP_DTYPES = ["float64", "float32", "int64", "int32", "int16", "uint16"]
BAD_K_SHARD_KS = [23, 31, 36, 51, 58, 62, 97]


def _da(a):
    import xarray as xr
    return xr.DataArray(a, dims=("y", "x"))


def _quiet_call(fn, *a, **kw):
    """Call a classifier; its 'not enough unique values' notices go to stdout / warnings."""
    import warnings
    with contextlib.redirect_stdout(io.StringIO()), warnings.catch_warnings():
        warnings.simplefilter("ignore")
        # natural_breaks re-enables warnings inside its own catch_warnings block; silence the writer as well
        old = warnings.showwarning
        warnings.showwarning = lambda *x, **y: None
        try:
            return fn(*a, **kw)
        finally:
            warnings.showwarning = old


def _finite_mask(a):
    return np.isfinite(a) if a.dtype.kind == "f" else np.ones(a.shape, bool)


def _common_labels(r, sub, a, fin):
    r.label("sub=" + sub, "dtype=" + str(a.dtype))
    if a.dtype.kind == "f":
        if np.isnan(a).any():
            r.label("has_nan")
        if np.isinf(a).any():
            r.label("has_inf")
    if not fin.all():
        r.label("has_nonfinite")
    v = a[fin]
    if v.size and len(np.unique(v)) < v.size:
        r.label("ties")
    if a.dtype == np.float64 and v.size and (v.astype("float32").astype("float64") != v).any():
        r.label("nonf32_values")
    if a.dtype.kind in "iu" and v.size and (np.abs(v.astype("float64")) > 2 ** 24).any():
        r.label("nonf32_values")
    if a.shape[0] == 1 or a.shape[1] == 1:
        r.label("single_row_or_col")


def _nan_rule(r, sub, a, fin, out, unlabelled_ok=None, where_fn=None):
    """non-finite => NaN ; finite => labelled (except where unlabelled_ok)."""
    if out.shape != a.shape:
        r.fail(sub + ".shape", "output shape %s for input %s" % (out.shape, a.shape))
        return False
    of = np.asarray(out, dtype="float64")
    bad = (~fin) & ~np.isnan(of)
    if bad.any():
        y, x = np.argwhere(bad)[0]
        kind = "nan" if np.isnan(a[y, x]) else ("+inf" if a[y, x] > 0 else "-inf")
        r.fail("%s.nonfinite_labelled[%s cell]" % (sub, kind), "cell (%d,%d)=%r got %r, expected NaN" % (y, x, a[y, x], out[y, x]))
    must = fin if unlabelled_ok is None else (fin & ~unlabelled_ok)
    bad = must & np.isnan(of)
    if bad.any():
        y, x = np.argwhere(bad)[0]
        v = a[y, x]
        fv = a[fin]
        where = "max cell" if v == fv.max() else ("min cell" if v == fv.min() else "interior value")
        if where_fn is not None:
            where = where_fn(v)
        b = "%s.finite_unlabelled[%s]" % (sub, where)
        r.fail(b, "finite cell (%d,%d)=%r got NaN" % (y, x, v))
    return True


def _data_driven_invariants(r, sub, a, fin, out, k, skip=None):
    """integers in [0,k-1]; a larger value never gets a smaller class.  `skip`: boolean mask of cells not judged."""
    m = fin & ~np.isnan(out)
    if skip is not None:
        m = m & ~skip
    lab = out[m].astype("float64")
    val = a[m].astype("float64")
    if lab.size == 0:
        return
    nonint = lab != np.floor(lab)
    if nonint.any():
        i = np.argmax(nonint)
        r.fail(sub + ".label_not_integer", "value %r labelled %r (k=%d)" % (val[i], lab[i], k))
    rng = (lab < 0) | (lab > k - 1)
    if rng.any():
        i = np.argmax(rng)
        r.fail(sub + ".label_out_of_range", "value %r labelled %r outside [0,%d]" % (val[i], lab[i], k - 1))
    order = np.lexsort((lab, val))
    ls, vs = lab[order], val[order]
    d = np.diff(ls) < 0
    if d.any():
        i = np.argmax(d)
        r.fail(sub + ".order", "value %r has class %r but larger value %r has class %r" % (vs[i], ls[i], vs[i + 1], ls[i + 1]))


# ====================================================================== binary

def body_binary(case, ctx):
    from xrspatial.classify import binary
    a = dec_arr(case["raster"])
    values = dec_list(case["values"])
    fin = _finite_mask(a)
    r = R()
    _common_labels(r, "binary", a, fin)
    out = np.asarray(binary(_da(a), values).values)
    if not _nan_rule(r, "binary", a, fin, out):
        return r
    a64 = a.astype("float64")
    member = np.isin(a64, np.array(values, dtype="float64")) & fin
    r.nt = bool(member.any() and (fin & ~member).any())
    r.label("nvalues=%d" % min(len(values), 5))
    of = np.asarray(out, dtype="float64")
    bad = member & (of != 1)
    if bad.any():
        y, x = np.argwhere(bad)[0]
        r.fail("binary.listed_value_not_1", "cell (%d,%d)=%r is in %r but got %r" % (y, x, a[y, x], values, out[y, x]))
    bad = fin & ~member & (of != 0)
    if bad.any():
        y, x = np.argwhere(bad)[0]
        r.fail("binary.unlisted_value_not_0", "cell (%d,%d)=%r is not in %r but got %r" % (y, x, a[y, x], values, out[y, x]))
    return r


# ====================================================================== reclassify

def _position(v, bins64):
    n = len(bins64)
    if v < bins64[0]:
        return "below_first"
    if v > bins64[-1]:
        return "above_last"
    on = np.where(bins64 == v)[0]
    if on.size:
        if on.size > 1:
            return "on_duplicated_boundary"
        if on[0] == 0:
            return "on_first"
        if on[0] == n - 1:
            return "on_last"
        return "on_boundary"
    return "between"


def _check_first_bin(r, sub, a, fin, bins, new_values, out):
    bins64 = np.array(bins, dtype="float64")
    nv32 = np.array(new_values, dtype="float64").astype("float32")
    a64 = a.astype("float64")
    idx = np.full(a.shape, -1)
    idx[fin] = O.first_bin(a64[fin], bins64)
    above = fin & (idx < 0)
    if not _nan_rule(r, sub, a, fin, out, unlabelled_ok=above, where_fn=lambda v: _position(float(v), bins64)):
        return idx
    exp = np.full(a.shape, np.nan, dtype="float32")
    exp[idx >= 0] = nv32[idx[idx >= 0]]
    of = np.asarray(out)
    # "the new value" of the bin: exactly as listed, or rounded to the result's single precision - the statement does not fix the result dtype
    exp64 = np.full(a.shape, np.nan, dtype="float64")
    exp64[idx >= 0] = np.array(new_values, dtype="float64")[idx[idx >= 0]]
    same = (of == exp) | (of.astype("float64") == exp64) | (np.isnan(of) & np.isnan(exp))
    bad = fin & ~same
    if bad.any():
        y, x = np.argwhere(bad)[0]
        v = a64[y, x]
        pos = _position(v, bins64)
        i = int(idx[y, x])
        r.fail("%s.first_bin[%s]" % (sub, pos),
               "n_bins=%d value %r: first bin with upper bound >= value is %s -> expected %r, got %r"
               % (len(bins), a[y, x], ("#%d (%r)" % (i, bins[i])) if i >= 0 else "none (above last)", exp[y, x], of[y, x]))
    return idx


def body_reclassify(case, ctx):
    from xrspatial.classify import reclassify
    a = dec_arr(case["raster"])
    bins = dec_list(case["bins"])
    new_values = dec_list(case["new_values"])
    fin = _finite_mask(a)
    r = R()
    _common_labels(r, "reclassify", a, fin)
    b_arg = tuple(bins) if case.get("as_tuple") else list(bins)
    out = np.asarray(reclassify(_da(a), bins=b_arg, new_values=list(new_values)).values)
    idx = _check_first_bin(r, "reclassify", a, fin, bins, new_values, out)
    bins64 = np.array(bins, dtype="float64")
    on_boundary = bool(np.isin(a.astype("float64")[fin], bins64).any())
    hit = np.unique(idx[fin])
    r.nt = bool((on_boundary or not fin.all()) and len(hit) >= 2)
    r.label("nbins=%d" % len(bins))
    if on_boundary:
        r.label("cell_on_boundary")
    if (hit < 0).any():
        r.label("cell_above_last")
    if len(set(bins)) < len(bins):
        r.label("duplicated_bins")
    if np.isinf(bins64[-1]):
        r.label("inf_tail")
    return r


def _sweep_inputs(case):
    n, variant, dtype = case["n"], case["variant"], case["dtype"]
    base = 2 if dtype.startswith("uint") else 0
    ints = np.arange(base - 1, base + 2 * n + 1)           # below first, on, between, ..., on last, +1, +2 above last
    strict = [base + 2 * i for i in range(n)]
    isf = dtype.startswith("float")
    if variant == "strict":
        bins, vals, nv = strict, ints, [3 * i + 1 for i in range(n)]
    elif variant == "offset":
        bins = [b + 0.5 for b in strict]
        vals = np.concatenate([ints, np.array(bins)]) if isf else ints
        nv = [i + 0.5 for i in range(n)]
    elif variant == "decimal":
        bins = [(b + 1) / 10.0 for b in strict]               # 0.1, 0.3, 0.5 ... not representable in binary
        if isf:
            b = np.array(bins)
            vals = np.concatenate([b, b - 0.05, b + 0.05, [b[-1] + 1.0]])   # float32 rasters land just off the float64 bins
        else:
            vals = np.arange(base, base + n // 5 + 2)
        nv = [n - i for i in range(n)]
    elif variant == "pairs":
        bins, vals, nv = [base + 2 * (i // 2) * 2 for i in range(n)], ints, [3 * i + 1 for i in range(n)]
    elif variant == "dup":
        d = case["d"]
        bins = list(strict)
        bins[d + 1] = bins[d]
        vals, nv = ints, [3 * i + 1 for i in range(n)]
    else:
        raise ValueError(variant)
    a = np.asarray(vals).astype(dtype).reshape(1, -1)
    if a.shape[1] % 2 == 0 and a.shape[1] > 2:
        a = a.reshape(2, -1)
    return a, bins, nv


def body_reclass_sweep(case, ctx):
    from xrspatial.classify import reclassify
    a, bins, nv = _sweep_inputs(case)
    fin = _finite_mask(a)
    r = R(nt=True)
    r.label("sub=reclass_sweep", "dtype=" + str(a.dtype), "variant=" + case["variant"])
    out = np.asarray(reclassify(_da(a), bins=bins, new_values=nv).values)
    _check_first_bin(r, "reclassify", a, fin, bins, nv, out)
    return r


# ====================================================================== equal_interval

def body_equal_interval(case, ctx):
    from xrspatial.classify import equal_interval
    a = dec_arr(case["raster"])
    k = case["k"]
    fin = _finite_mask(a)
    r = R()
    _common_labels(r, "equal_interval", a, fin)
    vals = a[fin]
    uniq = np.unique(vals)
    if len(uniq) < 2:
        r.label("out_of_domain")
        return r
    out = np.asarray(_quiet_call(equal_interval, _da(a), k=k).values)
    if not _nan_rule(r, "equal_interval", a, fin, out):
        return r
    _data_driven_invariants(r, "equal_interval", a, fin, out, k)
    r.nt = len(uniq) >= k
    r.label("k=%s" % (k if k <= 9 else "10+"), "k<=distinct" if len(uniq) >= k else "k>distinct")

    f32 = a.dtype == np.float32
    prec, eps = (24, O.EPS32) if f32 else (53, O.EPS64)
    mn, mx = Fr(uniq[0].item()), Fr(uniq[-1].item())
    w = (mx - mn) / k
    maxabs = float(max(abs(mn), abs(mx)))
    sp = float(np.spacing(np.float32(maxabs))) if f32 else float(np.spacing(maxabs))
    wf = float(w)
    if wf < 64 * sp:
        r.label("out_of_domain")
        return r
    # exact arithmetic possible?  mn, w multiples of 2^-s and every intermediate below 2^prec units
    exact = False
    if all(fr.denominator & (fr.denominator - 1) == 0 for fr in (mn, mx, w)):
        s = max(fr.denominator.bit_length() - 1 for fr in (mn, mx, w))
        bound = (abs(mn) + abs(mx) + (k + 2) * w) * (1 << s)
        exact = bound < (1 << prec)
    band = Fr(0) if exact else Fr(2 * ((k + 2) * sp / wf + 2 * k * eps))
    r.label("exact_cuts" if exact else "rounded_cuts")
    of = np.asarray(out, dtype="float64")
    on_cut = False
    for u in uniq:
        frac = (Fr(u.item()) - mn) / w
        near = round(frac)
        cells = fin & (a == u)
        if u == uniq[-1]:
            bad = cells & (of != k - 1)
            if bad.any():
                r.fail("equal_interval.max_not_in_last_class", "max value %r labelled %r, expected %d (k=%d, min=%r)" % (u, of[bad][0], k - 1, k, uniq[0]))
            continue
        # only an interior cut (1..k-1) can change the label: below cut 1 everything is class 0 (cut 1 > min because
        # w >= 64 ulp), and at/above cut k-1 + band everything is class k-1
        if 1 <= near <= k - 1 and abs(frac - near) <= band and not (exact and frac == near):
            r.amb += int(cells.sum())
            continue
        if u == uniq[0]:
            exp, bucket = 0, "equal_interval.min_not_in_first_class"
        elif frac == near:                    # exact cut, exact arithmetic: the value is the upper bound of interval near-1
            exp = max(int(near) - 1, 0)
            if 1 <= near <= k - 1:
                on_cut = True
            bucket = "equal_interval.value_on_exact_cut_not_in_lower_interval"
        else:
            exp = min(max(-(-frac.numerator // frac.denominator) - 1, 0), k - 1)
            bucket = "equal_interval.wrong_interval"
        bad = cells & (of != exp)
        if bad.any():
            r.fail(bucket, "value %r: (v-min)/w = %.12g with min=%r max=%r k=%d -> interval %d, got %r"
                   % (u, float(frac), uniq[0], uniq[-1], k, exp, of[bad][0]))
    if on_cut:
        r.label("value_on_interior_cut")
    return r


# ====================================================================== quantile

def narrow_int_gap_overflow(a):
    """Two neighbouring sorted values further apart than the raster's own integer dtype can hold (int16: > 32767): a
    percentile interpolated in that dtype would wrap around.  Class label only (a defect repaired in /repo 523b20b)."""
    if a.dtype.kind != "i" or a.dtype.itemsize > 4:
        return False
    v = np.sort(a.ravel().astype("int64"))
    return bool(v.size > 1 and np.diff(v).max() > np.iinfo(a.dtype).max)


def body_quantile(case, ctx):
    from xrspatial.classify import quantile
    a = dec_arr(case["raster"])
    k = case["k"]
    fin = _finite_mask(a)
    r = R()
    _common_labels(r, "quantile", a, fin)
    vals = a[fin]
    if vals.size == 0:
        r.label("out_of_domain")
        return r
    uniq = np.unique(vals)
    # classes in which defects were found and repaired (/repo 3ae305b, 523b20b): labelled so that the evidence shows them
    pclass = O.pvec_class(k)
    r.label("k_float_arange=" + {"ok": "k_entries_to_100", "last<100": "ends_below_100", "k+1": "k+1_entries"}.get(pclass, pclass))
    if narrow_int_gap_overflow(a):
        r.label("narrow_int_neighbour_gap_gt_dtype_max")
    out = np.asarray(_quiet_call(quantile, _da(a), k=k).values)
    if not _nan_rule(r, "quantile", a, fin, out):
        return r
    _data_driven_invariants(r, "quantile", a, fin, out, k)
    r.nt = len(uniq) >= k
    r.label("k=%s" % (k if k <= 9 else "10+"), "k<=distinct" if len(uniq) >= k else "k>distinct")

    srt = sorted(Fr(v.item()) for v in vals)
    brk = O.exact_percentiles(srt, k, f32_input=(a.dtype == np.float32))
    if len(set(q for q, _ in brk)) < k:
        r.label("tied_percentiles")
    of = np.asarray(out, dtype="float64")
    on_break = False
    for u in uniq:
        fu = Fr(u.item())
        lo, hi, amb = O.quantile_interval(fu, brk)
        cells = fin & (a == u)
        if amb:
            r.amb += int(cells.sum())
        if any(q == fu for q, _ in brk[:-1]):
            on_break = True
        bad = cells & ~np.isnan(of) & ((of < lo) | (of > hi))
        if bad.any():
            r.fail("quantile.band[label %s percentile interval]" % ("below" if of[bad][0] < lo else "above"),
                   "value %r labelled %r, allowed [%d,%d]: k=%d, n=%d finite, exact percentiles %s"
                   % (u, of[bad][0], lo, hi, k, len(srt), [float(q) for q, _ in brk][:12]))
    if on_break:
        r.label("value_on_interior_break")
    return r


# ====================================================================== natural_breaks

def _nb_sample(a, num_sample):
    """The documented sampling (fixed RandomState, shuffle of the flat index) - used ONLY to recognise the two
    degenerate-sample classes recorded as defects, never as an oracle."""
    flat = a.ravel()
    gen = np.random.RandomState(1234567890)
    idx = np.linspace(0, flat.size, flat.size, endpoint=False, dtype=np.uint32)
    gen.shuffle(idx)
    s = flat[idx[:num_sample]]
    return s[np.isfinite(s)] if s.dtype.kind == "f" else s


def nb_sample_class(a, k, num_sample):
    if num_sample is None or num_sample >= a.size:
        return "full"
    s = _nb_sample(a, num_sample)
    if s.size == 0:
        return "sample_without_finite_value"
    fin = _finite_mask(a)
    if len(np.unique(s)) < k and a[fin].max() > s.max():
        return "sample_has_lt_k_unique_and_misses_max"
    return "sampled"


def body_natural_breaks(case, ctx):
    from xrspatial.classify import natural_breaks
    a = dec_arr(case["raster"])
    k = case["k"]
    ns_mode = case.get("num_sample", "default")
    fin = _finite_mask(a)
    r = R()
    _common_labels(r, "natural_breaks", a, fin)
    vals = a[fin]
    if vals.size == 0:
        r.label("out_of_domain")
        return r
    kw = {}
    if ns_mode != "default":
        kw["num_sample"] = ns_mode           # None or an int
    # sample=sample_without_finite_value / sample_has_lt_k_unique_and_misses_max are classes in which defects were found
    # and repaired (/repo 2c536e4, 0cce1be); they are ordinary cases now, labelled so that the evidence shows them
    sclass = nb_sample_class(a, k, 20000 if ns_mode == "default" else ns_mode)
    r.label("sample=" + sclass)
    out = np.asarray(_quiet_call(natural_breaks, _da(a), k=k, **kw).values)
    uniq = np.unique(vals)
    if not _nan_rule(r, "natural_breaks", a, fin, out):
        return r
    _data_driven_invariants(r, "natural_breaks", a, fin, out, k)
    r.nt = len(uniq) >= k
    r.label("k=%s" % (k if k <= 9 else "10+"), "k<=distinct" if len(uniq) >= k else "k>distinct")
    if sclass != "full":
        return r                              # sampled fit: only the invariants are claimed
    of = np.asarray(out, dtype="float64")
    if np.isnan(of[fin]).any():
        return r
    v64 = vals.astype("float64")
    n = v64.size
    srt = np.sort(v64)
    cost = O._segment_costs(srt)
    opt = O.jenks_opt(srt, k, cost=cost)
    if n < 14:
        r.label("dp_cross_checked_by_brute_force")
        bf = O.jenks_brute(srt, k, cost=cost)
        if abs(bf - opt) > 1e-9 * max(bf, opt) + 1e-300:
            r.fail("oracle_selfcheck.jenks_dp_vs_brute_force", "DP %r brute force %r on %r k=%d" % (opt, bf, srt.tolist(), k))
    got = O.partition_ssd(v64, of[fin])
    r.label("opt=0" if opt == 0 else "opt>0")
    # Forward bound of the code's DP (see module docstring): every class cost is evaluated with relative error <= delta,
    # delta = (3n+5)(2n+1) eps64, so the partition it returns costs at most (1 + ~2 delta) times the optimum.
    delta = (3 * n + 5) * (2 * n + 1) * O.EPS64
    rel = 4 * delta + 4 * k * O.EPS64 + 1e-12
    # the class in which the unshifted one-pass variance cancelled (defect repaired in /repo b0d9b84): its absolute error
    # bound (8n+16) eps sum(v^2) reaches the cost of the cheapest two-value class.  Asserted like any other case.
    mingap = float(np.diff(uniq.astype("float64")).min()) if len(uniq) > 1 else np.inf
    if (8 * n + 16) * O.EPS64 * float((v64 * v64).sum()) >= mingap * mingap / 2:
        r.label("large_offset_close_values")
    if rel > 1e-6 or mingap < 1e-150:
        # the shifted bound itself is not small (n beyond ~10^4 cells), or a squared gap underflows in float64 (the bound
        # assumes no underflow; generators never produce such values): optimality not decidable to float accuracy
        r.label("bound_not_small")
        r.amb += 1
        return r
    nonf32 = bool(a.dtype.kind != "f" or a.dtype == np.float64) and bool((v64.astype("float32").astype("float64") != v64).any())
    r.label("optimality_asserted", "optimality_asserted[%s]" % ("nonf32 values" if nonf32 else "f32-representable"))
    if nonf32 and opt > 0:
        r.label("optimality_asserted[nonf32 values, opt>0]")
    if got > opt * (1 + rel):
        r.fail("natural_breaks.suboptimal_partition[%s]" % ("values not float32-representable" if nonf32 else "float32-representable values"),
               "within-class SSD %r > optimum %r (relative tolerance %.3g); k=%d n=%d labels of sorted values %s"
               % (got, opt, rel, k, n, of[fin][np.argsort(v64, kind="stable")].astype(int).tolist()[:60]))
    return r


BODIES = {"binary": body_binary, "reclassify": body_reclassify, "reclass_sweep": body_reclass_sweep,
          "equal_interval": body_equal_interval, "quantile": body_quantile, "natural_breaks": body_natural_breaks}


# ====================================================================== strategies
#
# Hypothesis pads many examples with "simplest choice" draws (zero extension).  Every draw below is therefore arranged so
# that the simplest choice is a TYPICAL case, not a degenerate one: lists put a rich option first, cell c of a raster is
# pool[(draw_c + c) % len(pool)] (all-zero draws cycle through the whole pool instead of repeating one value), and drawn
# integer pools are spread by an index-dependent offset.  The shrinker still simplifies towards small shapes.

PAL_QUARTERS = [i / 4.0 for i in range(-12, 21)]
PAL_NONF32 = [round(0.1 * i, 10) for i in range(-5, 25) if i % 5] + [3.3333333333, 1.0 / 3, 0.001, 2.3e-5, 7.7]
PAL_NONF32BIG = [12345.6789, 1000000.123, 54321.001, 250000.7, 777.7, 99999.99, -33333.3, 500000.05, 0.1, -765432.1, 3456.789]
# large values next to close ones (1000000.001 / 1000000.002, 0.1 / 0.2 beside 1e6): the class in which an unshifted one-pass
# variance cancels catastrophically (repaired in /repo b0d9b84)
PAL_NONF32MIX = PAL_NONF32[::3] + PAL_NONF32BIG + [1000000.001, 1000000.002, 1000000.5, 999999.999, 2000000.001, 2000000.002]
PAL_INTBIG = [0, 5, -7, 16777217, 16777219, -16777217, 33554433, 33554435, 50331649, 67108865, 83886081, 100000001, 100000003,
              123456789, -50000001, 16777221, 99999999]
INT_RANGE = {"int16": (-32768, 32767), "uint8": (0, 255), "uint16": (0, 65535), "int32": (-2 ** 31, 2 ** 31 - 1), "int64": (-2 ** 63, 2 ** 63 - 1)}
SIDES = [2, 1, 3, 4, 5, 6, 7, 8, 9, 10]        # simplest first: the shrinker ends on a 2x2 / 1xN raster
POOL_SIZES = [8, 5, 3, 12, 2, 16, 4, 6, 1, 7, 9, 10, 14, 20, 24]
# 23, 31, 36, 51 ... 97: k whose float arange(w, 100+w, w) ends below 100 or has k+1 entries (repaired in /repo 3ae305b)
K_LIST = [4, 3, 5, 2, 6, 7, 8, 9] * 4 + list(range(10, 41)) + [23, 31, 36, 51, 55, 57, 58, 62, 63, 97]
KINDS = {"float64": ["dec3", "nonf32", "smallint", "quarters", "signed", "off6", "off6wide", "nonf32big", "nonf32mix", "off6close"],
         "float32": ["dec2_f32", "smallint", "quarters", "signed", "dec2_f32"],
         "int64": ["smallint", "intbig", "signed", "intwide"], "int32": ["smallint", "intbig", "signed", "intwide"],
         "int16": ["smallint", "signed", "intwide", "i16ends"], "uint8": ["smallint", "intwide"]}


def _sides(max_side):
    s = [x for x in SIDES if x <= max_side]
    if max_side > 10:
        s += [12, 16, 20, 24, 30, 40]
        s = [x for x in s if x <= max_side]
    return s


@st.composite
def shape(draw, max_side, min_cells=1):
    s = _sides(max_side)
    h, w = draw(st.sampled_from(s)), draw(st.sampled_from(s))
    if h * w < min_cells:
        w = min_cells
    return h, w


@st.composite
def spread_ints(draw, count, lo, hi):
    """`count` distinct integers in [lo, hi]; all-zero draws give an evenly spread set."""
    span = hi - lo + 1
    step = max(span // (count + 1), 1) | 1
    ds = draw(st.lists(st.integers(0, span - 1), min_size=count, max_size=count))
    xs = sorted(set(lo + (d + (i + 1) * step) % span for i, d in enumerate(ds)))
    return xs


@st.composite
def subset(draw, base, count):
    count = min(count, len(base))
    ds = draw(st.lists(st.integers(0, len(base) - 1), min_size=count, max_size=count))
    step = max(len(base) // count, 1)
    out = []
    for i, d in enumerate(ds):
        v = base[(d + i * step) % len(base)]
        if v not in out:
            out.append(v)
    return out


@st.composite
def value_pool(draw, dtype, min_size=1, free=False, kinds=None):
    """(kind, list of distinct finite values of the dtype)."""
    kinds = kinds or (KINDS[dtype] + (["free"] if free and dtype == "float64" else []))
    kind = draw(st.sampled_from(kinds))
    size = max(draw(st.sampled_from(POOL_SIZES)), min_size)
    if kind == "smallint":
        pool = draw(subset(list(range(0, 13)), size))
    elif kind == "signed":
        pool = draw(subset(list(range(-6, 7)), size))
    elif kind == "quarters":
        pool = draw(subset(PAL_QUARTERS, size))
    elif kind == "nonf32":
        pool = draw(subset(PAL_NONF32, size))
    elif kind == "nonf32big":
        pool = draw(subset(PAL_NONF32BIG, size))
    elif kind == "nonf32mix":
        pool = draw(subset(PAL_NONF32MIX, size))
    elif kind == "off6close":
        pool = [1e6 + x / 1000.0 for x in draw(spread_ints(size, 0, 2000))]         # 1e6 + [0, 2]: gaps of 0.001 .. 1
    elif kind == "dec3":
        pool = [x / 1000.0 for x in draw(spread_ints(size, -100000, 100000))]
    elif kind == "off6":
        pool = [1e6 + x / 1000.0 for x in draw(spread_ints(size, 0, 10 ** 8))]
    elif kind == "off6wide":
        pool = [x / 1000.0 + 0.000123 for x in draw(spread_ints(size, 0, 10 ** 9))]
    elif kind == "free":
        pool = draw(st.lists(st.floats(-1e4, 1e4, allow_nan=False, allow_infinity=False, width=64), min_size=size, max_size=size, unique=True))
        # 1e-9 grid: distinct values differ by >= 1e-9, so squared gaps stay far from the float64 underflow threshold
        pool = sorted(set(round(p, 9) + 0.0 for p in pool))
    elif kind == "dec2_f32":
        pool = sorted(set(float(np.float32(x / 100.0)) for x in draw(spread_ints(size, -10000, 10000))))
    elif kind == "intbig":
        pool = draw(subset(PAL_INTBIG, size))
    elif kind == "i16ends":          # few values at both ends of int16: neighbours further apart than 32767 (repaired /repo 523b20b)
        pool = draw(subset([-32768, 32767, -30000, 21845, -10923, 32000, 0, 5, -20000, 10000], min(size, 5)))
    else:  # intwide
        lo, hi = INT_RANGE[dtype]
        pool = draw(spread_ints(size, max(lo, -10 ** 9), min(hi, 10 ** 9)))
    while len(pool) < min_size:                       # collisions are only possible for tiny bases
        nxt = max(pool) + 1
        if dtype in INT_RANGE and nxt > INT_RANGE[dtype][1]:      # stay inside the dtype (32767 + 1 is not an int16)
            nxt = next(v for v in range(INT_RANGE[dtype][1], INT_RANGE[dtype][0] - 1, -1) if v not in pool)
        pool.append(nxt)
    return kind, pool


@st.composite
def fill(draw, h, w, pool, specials=()):
    """h x w nested list over `pool` (+ NaN/inf cells at a drawn density for float rasters)."""
    n = h * w
    p = len(pool)
    idx = draw(st.lists(st.integers(0, p - 1), min_size=n, max_size=n))
    flat = [pool[(idx[c] + c) % p] for c in range(n)]
    if specials:
        mode = draw(st.sampled_from(["none", "some", "one", "none", "half", "all_but_one"]))
        if mode == "one":
            flat[draw(st.integers(0, n - 1))] = draw(st.sampled_from(list(specials)))
        elif mode != "none":
            m = {"some": 7, "half": 2, "all_but_one": 1}[mode]
            marks = draw(st.lists(st.integers(0, max(m - 1, 0)), min_size=n, max_size=n))
            which = draw(st.lists(st.sampled_from(list(specials)), min_size=n, max_size=n))
            keep = draw(st.integers(0, n - 1))
            for c in range(n):
                if c != keep and (marks[c] + c) % m == m - 1:
                    flat[c] = which[c]
    return [flat[i * w:(i + 1) * w] for i in range(h)]


def _ensure_distinct(data, pool, need):
    flat = [v for row in data for v in row]
    if len(set(v for v in flat if not isinstance(v, str))) < need:
        for i in range(need):
            flat[i] = pool[i]
        w = len(data[0])
        data = [flat[i * w:(i + 1) * w] for i in range(len(data))]
    return data


@st.composite
def rasters(draw, max_side, dtypes=DTYPES6, need=1, free=False):
    """(kind, spec): raster over a drawn value pool (ties by construction), NaN/inf cells for float dtypes,
    at least `need` distinct finite values guaranteed by construction."""
    dtype = draw(st.sampled_from(dtypes))
    h, w = draw(shape(max_side, min_cells=need))
    kind, pool = draw(value_pool(dtype, min_size=need, free=free))
    specials = ["nan", "inf", "nan", "-inf"] if dtype.startswith("float") else []
    data = _ensure_distinct(draw(fill(h, w, pool, specials)), pool, need)
    return kind, {"dtype": dtype, "data": data}


@st.composite
def binary_cases(draw, max_side, dtypes=DTYPES6):
    kind, spec = draw(rasters(max_side, dtypes=dtypes, free=True))
    present = sorted(set(v for row in spec["data"] for v in row if not isinstance(v, str)))
    isf = spec["dtype"].startswith("float")
    extra = [0, 1, 2, -1, 7] + ([0.5, 0.1, 2.25] if isf else [2.5])
    nval = draw(st.sampled_from([2, 1, 3, 1, 2, 4, 6]))
    vals = draw(subset(present + extra, nval))
    if present and draw(st.sampled_from([True, True, True, False])) and not any(v in present for v in vals):
        vals[0] = draw(st.sampled_from(present))
    if draw(st.sampled_from([False, True])):
        vals = [float(v) for v in vals]          # float64 list against int / float32 rasters
    return {"sub": "binary", "pal": kind, "raster": spec, "values": vals}


@st.composite
def reclassify_cases(draw, max_side, dtypes=DTYPES6):
    dtype = draw(st.sampled_from(dtypes))
    isf = dtype.startswith("float")
    bkind = draw(st.sampled_from(["int", "half", "decimal", "int", "mixed"]))
    n = draw(st.sampled_from([1, 2, 3, 4, 5, 6, 7, 8, 9, 10, 11, 12]))
    if bkind == "int":
        base = list(range(-5, 21))
    elif bkind == "half":
        base = [i / 2.0 for i in range(-6, 21)]
    elif bkind == "decimal":
        base = [round(i / 10.0, 10) for i in range(-10, 40)]
    else:
        base = [-3, -1.5, 0, 0.1, 1, 2, 2.5, 3, 4.75, 7, 10, 12.5, 15]
    n = min(n, len(base))
    bins = sorted(draw(subset(base, n)))
    while len(bins) < n:
        bins.append(bins[-1] + 1)
    dupmode = draw(st.sampled_from(["strict", "dup_one", "strict", "dup_many"]))
    if dupmode != "strict" and n > 1:
        marks = draw(st.lists(st.sampled_from([False, True]), min_size=n - 1, max_size=n - 1))
        if dupmode == "dup_one" or not any(marks):
            marks = [False] * (n - 1)
            marks[draw(st.integers(0, n - 2))] = True
        for i, mk in enumerate(marks):
            if mk:
                bins[i + 1] = bins[i]             # equal neighbours, still ascending
        bins = sorted(bins)
    if draw(st.sampled_from([False, False, False, False, True])):
        bins = [float(b) for b in bins[:-1]] + ["inf"]
    nvk = draw(st.sampled_from(["arange", "ints", "quarters", "decimal"]))
    if nvk == "arange":
        nv = list(range(n))
    elif nvk == "ints":
        nv = [x - 100 for x in draw(spread_ints(n, 0, 200))]
        nv = (nv * n)[:n]
        perm = draw(st.permutations(list(range(n))))
        nv = [nv[i] for i in perm]
    elif nvk == "quarters":
        nv = draw(st.lists(st.sampled_from(PAL_QUARTERS), min_size=n, max_size=n))
    else:
        nv = draw(st.lists(st.sampled_from([0.1, 0.2, 0.3, 1.1, -2.7, 1000000.123, 5.0]), min_size=n, max_size=n))
    finite_bins = [b for b in bins if not isinstance(b, str)] or [0]
    cand = set()
    for b in finite_bins:
        cand.update([b, b, b - 1, b + 1, b - 0.5, b + 0.5, b + 0.05])
    for b0, b1 in zip(finite_bins[:-1], finite_bins[1:]):
        cand.add((b0 + b1) / 2.0)
    cand.update([finite_bins[0] - 2, finite_bins[-1] + 2])
    if isf:
        pool = sorted(set(float(np.float32(c)) if dtype == "float32" else float(c) for c in cand))
    else:
        lo, hi = INT_RANGE[dtype]
        pool = sorted(set(int(c) for c in cand if float(c).is_integer() and lo <= c <= hi)) or [0, 1]
    h, w = draw(shape(max_side))
    data = draw(fill(h, w, pool, ["nan", "inf", "-inf"] if isf else []))
    return {"sub": "reclassify", "raster": {"dtype": dtype, "data": data}, "bins": bins, "new_values": nv,
            "as_tuple": draw(st.sampled_from([False, True]))}


@st.composite
def equal_interval_cases(draw, max_side, dtypes=DTYPES6):
    if draw(st.sampled_from([False, True, False])):
        # arithmetic progression with k*t+1 terms: a value on every interior cut (exactly, or within rounding for decimal steps)
        k = draw(st.sampled_from([4, 3, 2, 5, 6, 7, 8, 9, 10, 12, 16]))
        t = draw(st.sampled_from([1, 2, 1, 3]))
        start = draw(st.sampled_from([0, -3, 0.5, 7, 0, -2.25, 0.1, 1000000.123]))
        step = draw(st.sampled_from([1, 0.25, 2, 3, 0.5, 0.1, 0.3]))
        isint = float(start).is_integer() and float(step).is_integer()
        allowed = [d for d in ["float64", "float32"] + (["int32", "int64", "int16"] if isint else []) if d in dtypes]
        if start > 1e5:
            allowed = [d for d in allowed if d != "float32"]
        if not allowed:                       # this shard's dtypes cannot hold the progression: integer one instead
            start, step = (int(start) if abs(start) < 100 else 7), (1 if float(step) < 1 else int(step))
            allowed = [d for d in dtypes if not d.startswith("float") and (d != "uint8" or start >= 0)] or ["float64"]
        dtype = draw(st.sampled_from(allowed))
        pool = [start + i * step for i in range(k * t + 1)]
        if dtype == "float32":
            pool = [float(np.float32(p)) for p in pool]
        elif not dtype.startswith("float"):
            pool = [int(p) for p in pool]
        h, w = draw(shape(max_side, min_cells=2))
        data = draw(fill(h, w, pool, ["nan", "inf", "-inf"] if dtype.startswith("float") else []))
        flat = [v for row in data for v in row]
        n = h * w
        i0 = draw(st.integers(0, n - 1))
        i1 = (i0 + 1 + draw(st.integers(0, n - 2))) % n
        flat[i0], flat[i1] = pool[0], pool[-1]                    # min and max present: the cuts are the progression's
        data = [flat[i * w:(i + 1) * w] for i in range(h)]
        return {"sub": "equal_interval", "pal": "progression", "raster": {"dtype": dtype, "data": data}, "k": k}
    kind, spec = draw(rasters(max_side, dtypes=dtypes, need=2))
    return {"sub": "equal_interval", "pal": kind, "raster": spec, "k": draw(st.sampled_from(K_LIST))}


@st.composite
def quantile_cases(draw, max_side, dtypes=DTYPES6):
    if draw(st.sampled_from([False, False, True])):
        # all cells distinct: the k percentiles are k distinct breaks even for k far above the pools' 24 values
        # (with a surplus percentile, /repo 3ae305b, that would be k+1 breaks for k class values)
        dtype = draw(st.sampled_from(dtypes))
        h, w = draw(shape(max_side))
        n = h * w
        lo, hi = (-100000, 100000) if dtype.startswith("float") else (max(INT_RANGE[dtype][0], -10 ** 6), min(INT_RANGE[dtype][1], 10 ** 6))
        if hi - lo + 1 < n:
            h, w, n = 10, 10, 100
        xs = draw(spread_ints(n, lo, hi))
        while len(xs) < n:
            xs.append(xs[-1] + 1 if xs[-1] < hi else min(set(range(lo, hi + 1)) - set(xs)))
        xs = list(draw(st.permutations(xs)))
        if dtype == "float64":
            xs = [x / 1000.0 for x in xs]
        elif dtype == "float32":
            xs = [float(np.float32(x / 100.0)) for x in xs]
        data = [xs[i * w:(i + 1) * w] for i in range(h)]
        return {"sub": "quantile", "pal": "all_distinct", "raster": {"dtype": dtype, "data": data}, "k": draw(st.sampled_from(K_LIST))}
    kind, spec = draw(rasters(max_side, dtypes=dtypes, need=1, free=True))
    return {"sub": "quantile", "pal": kind, "raster": spec, "k": draw(st.sampled_from(K_LIST))}


def _nb_num_sample(draw, case, spec, k):
    size = len(spec["data"]) * len(spec["data"][0])
    mode = draw(st.sampled_from(["default", "none", "lt", "ge", "lt"]))
    if mode == "none":
        case["num_sample"] = None
    elif mode == "ge":
        case["num_sample"] = size + draw(st.sampled_from([0, 1, 3]))
    elif mode == "lt" and size > 1:
        # half of the sampled fits use a very small sample (1..3 cells): fewer than k unique values / no finite value at all
        small = draw(st.sampled_from([False, True]))
        ns = draw(st.sampled_from([1, 2, 3])) if small else 1 + (draw(st.integers(0, size - 2)) + size // 2) % (size - 1)
        case["num_sample"] = min(ns, size - 1)


@st.composite
def natural_breaks_cases(draw, max_side, dtypes=DTYPES6):
    kind, spec = draw(rasters(max_side, dtypes=dtypes, need=1, free=True))
    k = draw(st.sampled_from([4, 3, 5, 2, 6, 7, 8, 9] * 3 + [10, 11, 12]))
    case = {"sub": "natural_breaks", "pal": kind, "raster": spec, "k": k}
    _nb_num_sample(draw, case, spec, k)
    return case


# float64 / wide-integer rasters whose values are NOT representable in float32: the class in which break values stored in
# single precision (repaired by /repo 1450bbf) and cancelling class variances (repaired by b0d9b84) show; fitted on the whole raster
@st.composite
def natural_breaks_nonf32_cases(draw, max_side):
    dtype = draw(st.sampled_from(["float64", "float64", "int64", "float64", "int32"]))
    h, w = draw(shape(max_side))
    if dtype == "float64" and draw(st.sampled_from([False, False, True])):
        # near-tie: an arithmetic progression (several partitions of equal cost) with one value moved by a relative 1e-6..1e-8,
        # so that the best partition beats the runner-up by less than single precision resolves (costs kept in float32 would
        # pick the wrong one) but far more than the float64 forward bound
        m = draw(st.sampled_from([3, 4, 5, 6, 7, 9, 12]))
        start = draw(st.sampled_from([0.0, 1.0, -2.5, 10.0]))
        step = draw(st.sampled_from([1.0, 0.5, 2.0, 0.1]))
        eps = draw(st.sampled_from([1e-7, -1e-7, 3e-8, -3e-8, 1e-6, -1e-6, 1e-8]))
        j = draw(st.integers(0, m - 1))
        pool = [start + i * step for i in range(m)]
        pool[j] += step * eps
        # every value exactly once (equal multiplicities keep the near-symmetry), in a drawn order, optionally one NaN cell
        row = list(draw(st.permutations(pool))) + (["nan"] if draw(st.sampled_from([False, True])) else [])
        k = draw(st.sampled_from([2, 3, 2, 4, 5, 6]))
        case = {"sub": "natural_breaks", "pal": "near_tie", "raster": {"dtype": "float64", "data": [row]}, "k": min(k, m - 1)}
        if draw(st.sampled_from([False, True])):
            case["num_sample"] = None
        return case
    elif dtype == "float64":
        kind, pool = draw(value_pool(dtype, kinds=["nonf32", "dec3", "off6", "nonf32big", "off6wide", "nonf32mix", "off6close"]))
        specials = ["nan", "inf", "nan", "-inf"]
    else:
        kind, pool = draw(value_pool(dtype, kinds=["intbig"]))
        specials = []
    data = _ensure_distinct(draw(fill(h, w, pool, specials)), pool, 1)
    k = draw(st.sampled_from([4, 3, 5, 2, 6, 7, 8, 9]))
    case = {"sub": "natural_breaks", "pal": kind, "raster": {"dtype": dtype, "data": data}, "k": k}
    if draw(st.sampled_from([False, True])):
        case["num_sample"] = None
    return case


# ====================================================================== enumerations

def sweep_cases(dtype, ns, variants):
    for n in ns:
        for v in variants:
            if v == "dup":
                for d in range(n - 1):
                    yield {"sub": "reclass_sweep", "n": n, "variant": "dup", "d": d, "dtype": dtype}
            else:
                if v == "pairs" and n < 2:
                    continue
                yield {"sub": "reclass_sweep", "n": n, "variant": v, "dtype": dtype}


# ---- regression shards: the minimal inputs of the six defects this check found (all repaired in /repo); they must pass

def quantile_badk_cases():
    for k in BAD_K_SHARD_KS:
        yield {"sub": "quantile", "pal": "smallint", "raster": {"dtype": "float64", "data": [[0.0, 1.0, 2.0, 3.0, 4.0]]}, "k": k}
        yield {"sub": "quantile", "pal": "dec3", "raster": {"dtype": "float64", "data": [[0.3 + 0.1 * i for i in range(12)], [7.7 - 0.1 * i for i in range(12)]]}, "k": k}


def quantile_narrow_int_cases():
    yield {"sub": "quantile", "pal": "intwide", "raster": {"dtype": "int16", "data": [[-10923], [21845], [-10923], [21845]]}, "k": 4}
    yield {"sub": "quantile", "pal": "intwide", "raster": {"dtype": "int16", "data": [[-32768, -30000, 0, 5, 32767, 32000, 1, -1]]}, "k": 3}


def nb_cancellation_cases():
    for data, dt in (([[1000000.001, 1000000.002, 0.0]], "float64"), ([[0, 100000001, 100000003]], "int64"),
                     ([[0, -7, 16777217, 33554433, 100000003, -16777217, 100000001]], "int64"),
                     ([[94906267.0, 94906265.0, 0.0]], "float64"),
                     ([[1000000.001, 1000000.002, 1000000.5, 3.0, 2000000.001, 2000000.002]], "float64")):
        n = len(data[0])
        for k in range(2, n + 1):
            yield {"sub": "natural_breaks", "pal": "large_close", "raster": {"dtype": dt, "data": data}, "k": k}


def nb_sample_defect_cases():
    yield {"sub": "natural_breaks", "pal": "smallint", "raster": {"dtype": "float64", "data": [[3.0, 0.0]]}, "k": 2, "num_sample": 1}
    yield {"sub": "natural_breaks", "pal": "smallint", "raster": {"dtype": "float64", "data": [[2.0, "nan"]]}, "k": 3, "num_sample": 1}
    yield {"sub": "natural_breaks", "pal": "smallint", "raster": {"dtype": "float64", "data": [[1.0, 1.0, 1.0, 1.0, 1.0, 1.0, 1.0, 9.0]]}, "k": 3, "num_sample": 2}
    yield {"sub": "natural_breaks", "pal": "smallint", "raster": {"dtype": "float64", "data": [["nan", "nan", "nan", 5.0, "inf", 7.0]]}, "k": 2, "num_sample": 1}


def shards(tier):
    th = tier == "thorough"
    side = 10
    out = []

    # each random shard works on a slice of the dtypes: every dtype is one more Numba specialisation of the kernels to compile
    PAIRS = [["float64", "float32"], ["int64", "int32"], ["int16", "uint8"]]
    HALVES = [["float64", "int32", "int16"], ["float32", "int64", "uint8"]]

    def rnd(name, count, body, strat_fn, per, groups):
        for i in range(count):
            strat = strat_fn(groups[i % len(groups)])
            out.append(("%s#%d" % (name, i), lambda ctx, body=body, strat=strat, per=per: drive_hypothesis(ctx, body, strat, per)))
    big = side if not th else 24
    big30 = side if not th else 30
    rnd("binary_rand", 2 if not th else 4, body_binary, lambda d: binary_cases(big, d), 500 if not th else 20000, HALVES)
    rnd("reclass_rand", 3 if not th else 6, body_reclassify, lambda d: reclassify_cases(big, d), 700 if not th else 28000, PAIRS)
    rnd("eqint_rand", 3 if not th else 6, body_equal_interval, lambda d: equal_interval_cases(big30, d), 600 if not th else 28000, PAIRS)
    rnd("quant_rand", 3 if not th else 6, body_quantile, lambda d: quantile_cases(big30, d), 500 if not th else 24000, PAIRS)
    rnd("nb_rand", 3 if not th else 6, body_natural_breaks, lambda d: natural_breaks_cases(side if not th else 16, d), 500 if not th else 20000, PAIRS)
    rnd("nb_nonf32", 2 if not th else 4, body_natural_breaks, lambda d: natural_breaks_nonf32_cases(side if not th else 16), 400 if not th else 5000, [None])
    if th:
        rnd("nb_large", 4, body_natural_breaks, lambda d: natural_breaks_cases(40, d), 400, [["float64"], ["float32", "float64"], ["int64", "float64"], ["float64"]])
    nmax = 256 if th else 64
    ns = list(range(1, nmax + 1))
    for dt in SWEEP_DTYPES:
        cases = list(sweep_cases(dt, ns, ["strict", "offset", "decimal", "pairs"]))
        out.append(("sweep_%s" % dt, lambda ctx, cases=cases, dt=dt: drive_enum(
            ctx, body_reclass_sweep, cases, space="reclassify sweep %s: n=1..%d x {strict,offset,decimal,pairs}" % (dt, nmax), size=len(cases))))
    dup_dtypes = SWEEP_DTYPES if th else ["float64", "int32", "float32"]
    for dt in dup_dtypes:
        nblk = 4 if th else 1
        for b in range(nblk):
            cases = list(sweep_cases(dt, ns[b::nblk], ["dup"]))
            out.append(("sweepdup_%s#%d" % (dt, b), lambda ctx, cases=cases, dt=dt, b=b: drive_enum(
                ctx, body_reclass_sweep, cases,
                space="reclassify sweep %s: one duplicated neighbour at every position d, n=%d..%d step %d" % (dt, ns[b], nmax, nblk), size=len(cases))))
    for name, body, gen in (("regress_quantile_badk", body_quantile, quantile_badk_cases),
                            ("regress_quantile_narrow_int", body_quantile, quantile_narrow_int_cases),
                            ("regress_nb_cancellation", body_natural_breaks, nb_cancellation_cases),
                            ("regress_nb_sample", body_natural_breaks, nb_sample_defect_cases)):
        cases = list(gen())
        out.append((name, lambda ctx, body=body, cases=cases, name=name: drive_enum(
            ctx, body, cases, space="%s: minimal inputs of repaired defects" % name, size=len(cases), stop_on_first=False)))
    return out


LEVEL_TEXT = ("Randomised (Hypothesis) plus bounded-exhaustive search on the NumPy backend: thousands of rasters (six dtypes, ties, NaN/inf, values not "
              "representable in float32, k on both sides of the number of distinct values) checked against independent oracles - membership, first-bin rule, "
              "equal-width formula with a derived rounding band, exact-rational percentile interval, Jenks optimum by an independent float64 dynamic programme "
              "(brute force below 14 values) - and the exhaustive reclassify sweep: every bin count up to 64 (quick) / 256 (thorough), every position of a value "
              "relative to every bin, six dtypes, strict / float-offset / decimal / paired / single-duplicate bin lists. Decides the first-bin rule inside the "
              "enumerated space; samples the rest.")
LEVEL_NOTE = ("Cells inside a stated rounding band of an equal_interval cut or a percentile are skipped and counted (ambiguous); natural_breaks optimality is asserted "
              "up to the forward error bound of a float64 sum-of-squares DP and only when the model is fitted on the whole raster; Dask/CuPy are out of scope (C01).")
TECHNIQUE = "property-based testing (Hypothesis) + exhaustive bin/value-position enumeration against independent reference models (exact rationals, dynamic programme, brute force)"
