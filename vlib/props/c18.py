"""C18 - trim and crop return the minimal window, cells and coordinates intact."""
import itertools

import numpy as np
from hypothesis import strategies as st

from .. import strategies as S
from ..core import R, dec_arr, dec_list, drive_enum, drive_hypothesis, enc_list

PROP = "C18"
RULE = ("Generator: rasters <= 10x10 (int/float dtypes, NaN cells, C/F/view layouts, asc/desc fractional coords, attrs), "
        "exclusion lists default (nan,), [0], [nan,0], [-1,2.5] and any ordering of 1-4 values out of {nan,0,-1,2.5,9,1,3}; crop: zones raster + id list + values raster; plus every 0/1 keep-mask "
        "of the enumerated grid shapes. Oracle: bounding box of kept cells (NaN matches NaN); result must equal raster[top:bottom+1,left:right+1] "
        "in cells, coordinate labels, dims, attrs. Non-trivial: the window is strictly smaller than the raster on >= 1 side; "
        "distinct by SHA-1 of the case (random) or enumeration index (masks).")
ASSUMPTIONS = ["at least one kept cell (trim) / one cell of a requested zone (crop): an empty selection has no bounding box",
               "2-D rasters; each dimension has a regular coordinate, no coordinate variable at all, or rounded cell centres with repeated labels"]
BUDGET_S = {"quick": 150, "thorough": 900}

EXCL = {"default": None, "zero": [0], "nan0": ["nan", 0.0], "m1_2.5": [-1.0, 2.5], "nan": ["nan"]}  # lists are homogeneous (Numba reflected-list precondition)


@st.composite
def _axis(draw, n):
    """Dimension coordinates of a raster: regular (either direction), none at all, or rounded cell centres with repeated labels."""
    k = draw(st.integers(0, 7))
    if k == 0:
        return "none"
    ax = draw(S.axis_coords(n))
    if k == 1:
        ax = dict(ax, step=draw(st.sampled_from([0.3, 0.5, 0.4])), decimals=0)
    return ax


def _match(a, excl):
    m = np.zeros(a.shape, bool)
    for e in excl:
        if isinstance(e, float) and np.isnan(e):
            if a.dtype.kind == "f":
                m |= np.isnan(a)
        else:
            m |= (a == e)
    return m


def _bbox(keep):
    rows = np.where(keep.any(axis=1))[0]
    cols = np.where(keep.any(axis=0))[0]
    return rows[0], rows[-1], cols[0], cols[-1]


def _cmp_window(r, out, src, t, b, l, rr, what):
    exp = src[t:b + 1, l:rr + 1]
    if out.shape != exp.shape:
        return r.fail("%s.window" % what, "shape %s, expected window rows %d..%d cols %d..%d => %s" % (out.shape, t, b, l, rr, exp.shape))
    if out.dims != src.dims:
        return r.fail("%s.dims" % what, "dims %s vs %s" % (out.dims, src.dims))
    if not np.array_equal(np.asarray(out.data), np.asarray(exp.data), equal_nan=(exp.dtype.kind == "f")):
        return r.fail("%s.cells" % what, "cells differ from slice")
    if out.dtype != src.dtype:
        r.fail("%s.dtype" % what, "dtype %s vs %s" % (out.dtype, src.dtype))
    for d in src.dims:
        if not np.array_equal(out[d].values, exp[d].values):
            r.fail("%s.coords" % what, "coord %s: %s vs %s" % (d, out[d].values, exp[d].values))
    if dict(out.attrs) != dict(src.attrs):
        r.fail("%s.attrs" % what, "attrs %s vs %s" % (out.attrs, src.attrs))
    return r


def body_trim(case, ctx):
    from xrspatial.zonal import trim
    ras = S.mk_da(case["raster"], ycoord=case.get("y"), xcoord=case.get("x"), attrs=case.get("attrs"),
                  layout=case.get("layout", "C"))
    before = ras.copy(deep=True)
    excl_spec = case["excl_list"] if case.get("excl_list") else EXCL[case["excl"]]
    excl = [float("nan")] if excl_spec is None else dec_list(excl_spec)
    a = np.asarray(ras.data)
    keep = ~_match(a, excl)
    r = R()
    if not keep.any():
        r.excl = 0
        return r  # outside the domain (nothing kept); generators avoid it
    t, b, l, rr = _bbox(keep)
    r.nt = (t > 0) or (l > 0) or (b < a.shape[0] - 1) or (rr < a.shape[1] - 1)
    if case.get("excl_list"):
        fin = [e for e in excl if e == e]
        r.label("excl_len=%d" % len(excl), "excl_sorted" if fin == sorted(fin) else "excl_unsorted")
        if len(excl) >= 3 and excl[0] == excl[0] and excl[-1] == excl[-1] and len(fin) < len(excl):
            r.label("excl_nan_in_the_middle")
    r.label("excl=" + case["excl"], "dtype=" + str(a.dtype),
            "borders_touched=%d" % sum([t == 0, l == 0, b == a.shape[0] - 1, rr == a.shape[1] - 1]))
    if a.shape[0] == 1 or a.shape[1] == 1:
        r.label("single_row_or_col")
    for d, ax in (("y", case.get("y")), ("x", case.get("x"))):
        if ax == "none":
            r.label("dim_without_coordinate")
        elif isinstance(ax, dict) and ax.get("decimals") is not None:
            r.label("repeated_coordinate_labels")
    if excl_spec is None:
        out = trim(ras)
    else:
        vals = tuple(excl) if case.get("as_tuple") else list(excl)
        out = trim(ras, values=vals)
    _cmp_window(r, out, before, t, b, l, rr, "trim")
    return r


def body_crop(case, ctx):
    from xrspatial.zonal import crop
    zones = S.mk_da(case["zones"], ycoord=case.get("y"), xcoord=case.get("x"))
    vals = S.mk_da(case["values"], ycoord=case.get("y"), xcoord=case.get("x"), attrs=case.get("attrs"),
                   layout=case.get("layout", "C"))
    before = vals.copy(deep=True)
    ids = dec_list(case["ids"])
    z = np.asarray(zones.data)
    sel = np.isin(z, [i for i in ids])
    r = R()
    if not sel.any():
        return r
    t, b, l, rr = _bbox(sel)
    r.nt = (t > 0) or (l > 0) or (b < z.shape[0] - 1) or (rr < z.shape[1] - 1)
    r.label("crop", "nids=%d" % len(ids))
    out = crop(zones, vals, tuple(ids) if case.get("as_tuple") else list(ids))
    _cmp_window(r, out, before, t, b, l, rr, "crop")
    return r


BODIES = {"trim": body_trim, "crop": body_crop}


# ---------------------------------------------------------------- strategies

@st.composite
def trim_cases(draw, max_side):
    h, w = draw(S.shapes(1, max_side))
    excl_name = draw(st.sampled_from(list(EXCL) + ["list"] * 4))
    dtype = draw(st.sampled_from(["float64", "float32", "int32", "int64", "int16", "uint8"]))
    is_f = dtype.startswith("float")
    excl_list = None
    # values: the excluded values themselves (often) plus others
    if excl_name == "list":
        # any homogeneous (all-float) list of 1-4 distinct values in any order, NaN anywhere in it
        excl_list = draw(st.permutations(["nan", 0.0, -1.0, 2.5, 9.0, 1.0, 3.0]))[:draw(st.integers(1, 4))]
        exv = [e if e == "nan" or e != int(e) else int(e) for e in excl_list]
        if not is_f:
            exv = [e for e in exv if isinstance(e, int)]
    elif excl_name in ("default", "nan"):
        exv = ["nan"] if is_f else []
    elif excl_name == "zero":
        exv = [0]
    elif excl_name == "nan0":
        exv = [0] + (["nan"] if is_f else [])
    else:
        exv = [-1] + ([2.5] if is_f else [])
    if dtype.startswith("uint"):
        exv = [e for e in exv if not (isinstance(e, (int, float)) and e < 0)]
    others = [1, 2, 3] + ([0.5, "nan", -1.0] if is_f else [0]) + ([] if dtype.startswith("uint") else [-2]) + ([7, 9] if excl_list else [])
    # kept cells sparse so that borders are trimmed often
    dens = draw(st.sampled_from([1, 2, 6]))
    pool = [v for v in others if v not in exv]
    if not exv:
        exv = [pool[0]]  # nothing excludable for this dtype: raster never trims (window = everything)
    elem = st.one_of(*([st.sampled_from(exv)] * dens + [st.sampled_from(pool)]))
    flat = draw(st.lists(elem, min_size=h * w, max_size=h * w))
    # guarantee at least one kept cell by construction
    excl = dec_list(excl_list) if excl_list else ([float("nan")] if EXCL[excl_name] is None else dec_list(EXCL[excl_name]))

    def is_ex(v):
        v = float("nan") if v == "nan" else v
        for e in excl:
            if (isinstance(e, float) and np.isnan(e) and isinstance(v, float) and np.isnan(v)) or e == v:
                return True
        return False
    if all(is_ex(v) for v in flat):
        k = draw(st.integers(0, h * w - 1))
        keepers = [v for v in pool if not is_ex(v)]
        flat[k] = draw(st.sampled_from(keepers))
    data = [flat[i * w:(i + 1) * w] for i in range(h)]
    case = {"sub": "trim", "raster": {"dtype": dtype, "data": data}, "excl": excl_name,
            "y": draw(_axis(h)), "x": draw(_axis(w)),
            "attrs": draw(st.sampled_from([{}, {"res": [1, 1], "unit": "m"}, {"nodata": 0, "k": [1, 2]}])),
            "layout": draw(st.sampled_from(["C", "C", "F", "view", "ro"])),
            "as_tuple": draw(st.booleans())}
    if excl_list:
        case["excl_list"] = excl_list
    return case


@st.composite
def crop_cases(draw, max_side):
    h, w = draw(S.shapes(1, max_side))
    zdtype = draw(st.sampled_from(["int32", "int64", "float64", "float32"]))
    zpool = [0, 1, 2, 3, 5] + ([1.5, "nan"] if zdtype.startswith("float") else [-1])
    bg = draw(st.sampled_from([0, 1]))
    dens = draw(st.sampled_from([1, 3, 8]))
    elem = st.one_of(*([st.just(bg)] * dens + [st.sampled_from(zpool)]))
    zflat = draw(st.lists(elem, min_size=h * w, max_size=h * w))
    if all(v == "nan" for v in zflat):
        zflat[draw(st.integers(0, h * w - 1))] = bg   # at least one zone id present (domain: some requested zone exists)
    present = [v for v in dict.fromkeys(zflat) if v != "nan"]
    ids = draw(st.lists(st.sampled_from(present + [77]), min_size=1, max_size=4, unique=True))
    if not any(i in present for i in ids):
        ids.append(present[0])
    vdtype = draw(st.sampled_from(["float64", "float32", "int32", "uint8"]))
    vflat = draw(st.lists(st.sampled_from([0, 1, 2, 3] + (["nan", 0.5] if vdtype.startswith("f") else [])), min_size=h * w, max_size=h * w))
    if zdtype.startswith("float"):
        ids = [float(i) for i in ids]
    return {"sub": "crop",
            "zones": {"dtype": zdtype, "data": [zflat[i * w:(i + 1) * w] for i in range(h)]},
            "values": {"dtype": vdtype, "data": [vflat[i * w:(i + 1) * w] for i in range(h)]},
            "ids": ids, "y": draw(_axis(h)), "x": draw(_axis(w)),
            "attrs": draw(st.sampled_from([{}, {"res": [2, 3]}])),
            "layout": draw(st.sampled_from(["C", "F", "view"])),
            "as_tuple": draw(st.booleans())}


def mask_cases(h, w, lo, hi, variant):
    """Every non-empty keep-mask with index in [lo, hi) of an h x w grid."""
    n = h * w
    for idx in range(max(lo, 1), hi):
        bits = [(idx >> k) & 1 for k in range(n)]
        if variant == "trim_nan":
            flat = [float(k + 1) if b else "nan" for k, b in enumerate(bits)]
            yield {"sub": "trim", "raster": {"dtype": "float64", "data": [flat[i * w:(i + 1) * w] for i in range(h)]},
                   "excl": "default", "enum": [h, w, idx]}
        elif variant == "trim_nan0":
            flat = [float(k + 1) if b else ("nan" if k % 2 else 0.0) for k, b in enumerate(bits)]
            yield {"sub": "trim", "raster": {"dtype": "float32", "data": [flat[i * w:(i + 1) * w] for i in range(h)]},
                   "excl": "nan0", "enum": [h, w, idx]}
        elif variant == "trim_zero_int":
            flat = [k + 1 if b else 0 for k, b in enumerate(bits)]
            yield {"sub": "trim", "raster": {"dtype": "int32", "data": [flat[i * w:(i + 1) * w] for i in range(h)]},
                   "excl": "zero", "enum": [h, w, idx]}
        else:  # crop
            zflat = [(3 if k % 2 else 5) if b else (k % 2) for k, b in enumerate(bits)]
            vflat = [float(k) for k in range(n)]
            yield {"sub": "crop", "zones": {"dtype": "int64", "data": [zflat[i * w:(i + 1) * w] for i in range(h)]},
                   "values": {"dtype": "float64", "data": [vflat[i * w:(i + 1) * w] for i in range(h)]},
                   "ids": [5, 3], "enum": [h, w, idx]}


def shards(tier):
    out = []
    nrand = 16 if tier == "thorough" else 6
    per = 2500 if tier == "thorough" else 400
    side = 10
    for i in range(nrand):
        out.append(("trim_rand#%d" % i, lambda ctx, i=i: drive_hypothesis(ctx, body_trim, trim_cases(side), per)))
        out.append(("crop_rand#%d" % i, lambda ctx, i=i: drive_hypothesis(ctx, body_crop, crop_cases(side), per)))
    shapes = [(1, 1), (1, 4), (4, 1), (2, 2), (2, 3), (3, 2), (3, 3), (2, 4), (4, 2), (3, 4), (4, 3), (4, 4)]
    if tier == "thorough":
        shapes += [(1, 12), (12, 1), (2, 7), (7, 2), (3, 5), (5, 3), (4, 5), (5, 4), (3, 6), (6, 3)]
    variants = ["trim_nan", "trim_nan0", "trim_zero_int", "crop"]
    for (h, w) in shapes:
        total = 1 << (h * w)
        nblk = max(1, min(16, total // 4096))
        for v in variants:
            if total > 70000 and v in ("trim_nan0",):
                continue
            if total > 300000 and v in ("trim_zero_int",):   # 20-cell grids: default-NaN trim and crop only (time)
                continue
            for bi in range(nblk):
                lo, hi = bi * total // nblk, (bi + 1) * total // nblk
                out.append(("mask_%s_%dx%d#%d" % (v, h, w, bi),
                            lambda ctx, h=h, w=w, lo=lo, hi=hi, v=v: drive_enum(
                                ctx, BODIES["crop" if v == "crop" else "trim"], mask_cases(h, w, lo, hi, v),
                                space="keep-masks %s %dx%d [%d,%d)" % (v, h, w, lo, hi), size=hi - max(lo, 1))))
    return out

LEVEL_TEXT = ("Randomised (Hypothesis) plus bounded-exhaustive search: every non-empty keep-mask of all grids up to 4x4 (quick) / 20 cells (thorough) "
              "for trim (default NaN, [nan,0], [0]) and crop, and thousands of random rasters over dtypes, layouts, coordinates and exclusion lists, "
              "each compared with the bounding-box slice oracle. Decides the property inside the enumerated spaces, samples it outside.")
LEVEL_NOTE = "Assumes >= 1 kept cell; oracle is NumPy boolean masking + xarray slicing; absence of violations outside the enumerated shapes is sampled, not proven."
TECHNIQUE = "property-based testing (Hypothesis) + exhaustive keep-mask enumeration against a bounding-box reference model"
