"""C02 - zonal stats summarise exactly the valid cells of each zone (NumPy backend)."""
import numpy as np
from hypothesis import strategies as st

from .. import strategies as S
from ..core import R, dec_arr, dec_list, dec_scalar, drive_hypothesis
from ..oracles import zonal as Z
from .c04 import _present, zone_grid

PROP = "C02"
RULE = ("Generator: zones rasters (int/float ids incl. negative and fractional, scattered per cell, NaN/+-inf zone cells) x value rasters "
        "(int8..int64/uint8/float32/float64, NaN/+-inf cells; zones and values independently C-/Fortran-ordered, strided views or read-only) x nodata {None, present, absent, 0, equal to a zone id, next to valid values (4e-9 beside 0, 200001 beside 200000)} x zone_ids {None, subsets, "
        "permutations, absent ids} x stats_funcs {non-empty ordered subsets of the seven names, dict of order-independent user reducers} x "
        "return_type {DataFrame, DataArray}. Oracle: brute-force per-zone masks, statistics in float64 (fsum). Non-trivial: >= 2 zones present and one "
        "of: interleaved zones, an invalid cell inside a zone, a non-finite zone cell, a requested id that is absent, an empty zone. Distinct by SHA-1.")
ASSUMPTIONS = ["zone_ids contain no duplicates", "user reducers are order-independent (zone slices arrive in unstable argsort order)",
               "float32 values: statistics are computed in float32 by NumPy, tolerance 1e-5 relative to the value scale"]
BUDGET_S = {"quick": 150, "thorough": 1200}


def body_stats(case, ctx):
    import pandas as pd
    import xarray as xr
    from xrspatial.zonal import stats
    zn, vn = dec_arr(case["zones"]), dec_arr(case["values"])
    nodata = dec_scalar(case["nodata"])
    zone_ids = None if case["zone_ids"] is None else dec_list(case["zone_ids"])
    names = case["stats"]
    user = case.get("user", False)
    rt = case["return_type"]
    zones = S.mk_da(case["zones"], ycoord=case.get("y"), xcoord=case.get("x"), layout=case.get("zlayout", "C"))
    values = S.mk_da(case["values"], ycoord=case.get("y"), xcoord=case.get("x"), attrs=case.get("attrs"), layout=case.get("vlayout", "C"))
    ids, table = Z.ref_stats_table(zn, vn, zone_ids, nodata, names)
    present = Z.zone_ids_present(zn)
    vm = Z.valid_mask(vn, nodata)
    r = R()
    # --- non-triviality / classes
    flat = zn.ravel()
    interleaved = False
    seen_done = set()
    prev = None
    for v in flat.tolist():
        if v != prev:
            if v in seen_done:
                interleaved = True
                break
            if prev is not None:
                seen_done.add(prev)
            prev = v
    invalid_in_zone = bool((~vm & np.isin(zn, present)).any())
    nonfinite_zone = zn.dtype.kind == "f" and bool((~np.isfinite(zn)).any())
    absent = zone_ids is not None and any(z not in set(present) for z in zone_ids)
    empty_zone = any(not vm[zn == z].any() for z in ids)
    near_nodata = nodata is not None and bool((vm & np.isclose(np.where(np.isfinite(vn), vn, 0).astype("float64"), float(nodata))).any())
    r.nt = len(present) >= 2 and (interleaved or invalid_in_zone or nonfinite_zone or absent or empty_zone or near_nodata)
    if near_nodata:
        r.label("valid_value_near_nodata")
    for name, flag in [("interleaved", interleaved), ("invalid_in_zone", invalid_in_zone), ("nonfinite_zone", nonfinite_zone),
                       ("absent_id", absent), ("empty_zone", empty_zone), ("user_reducers", user)]:
        if flag:
            r.label(name)
    r.label("rt=" + rt.split(".")[-1], "vdtype=" + str(vn.dtype), "zdtype=" + str(zn.dtype),
            "layouts=%s/%s" % (case.get("zlayout", "C"), case.get("vlayout", "C")))
    if zn.dtype.kind == "f" and bool(np.isneginf(zn).any()):
        r.label("neg_inf_zone")

    kw = {"nodata_values": nodata, "return_type": rt}
    if zone_ids is not None:
        kw["zone_ids"] = list(zone_ids)
    if user:
        kw["stats_funcs"] = {n: Z.USER_REDUCERS[n] for n in names}
    elif not case.get("default_stats"):
        kw["stats_funcs"] = list(names)
    out = stats(zones, values, **kw)

    rtol, atol = 1e-9, 1e-9
    if vn.dtype == np.float32:
        scale = float(np.max(np.abs(np.where(np.isfinite(vn), vn, 0)))) + 1.0
        rtol, atol = 2e-5, 2e-5 * scale * scale

    def ok(name, got, exp):
        if name in ("count", "max", "min", "n_positive"):
            return Z.close(got, exp, 0, 0)
        return Z.close(got, exp, rtol, atol)

    if rt == "pandas.DataFrame":
        if not isinstance(out, pd.DataFrame):
            return r.fail("stats.df.type", type(out))
        if sorted(map(str, out.columns)) != sorted(["zone"] + list(names)):   # one column per requested statistic; their order is not stated
            return r.fail("stats.df.columns", "columns %s expected %s" % (list(out.columns), ["zone"] + list(names)))
        zs = [float(z) for z in out["zone"].tolist()]
        if zs != [float(i) for i in ids]:
            return r.fail("stats.df.rows", "zone column %s, expected ascending %s" % (zs, ids))
        for k, z in enumerate(ids):
            for n in names:
                got = out[n].iloc[k]
                if not ok(n, got, table[z][n]):
                    tag = "neg_inf_zone" if (zn.dtype.kind == "f" and np.isneginf(zn).any()) else ("empty" if np.isnan(table[z][n]) else "")
                    return r.fail("stats.df.value[%s]" % tag, "zone %s %s: got %r expected %r\n%s" % (z, n, got, table[z][n], out.to_string()))
    else:
        if not isinstance(out, xr.DataArray):
            return r.fail("stats.da.type", type(out))
        if out.shape != (len(names),) + vn.shape:
            return r.fail("stats.da.shape", "%s expected %s" % (out.shape, (len(names),) + vn.shape))
        if out.dims != ("stats",) + values.dims or sorted(map(str, out["stats"].values)) != sorted(names):
            return r.fail("stats.da.dims", "%s %s" % (out.dims, list(out["stats"].values)))
        order = [list(map(str, out["stats"].values)).index(n) for n in names]   # statistics are addressed by their label
        for d in values.dims:
            if not np.array_equal(out[d].values, values[d].values):
                r.fail("stats.da.coords", d)
        if dict(out.attrs) != dict(values.attrs):
            r.fail("stats.da.attrs", "%s vs %s" % (out.attrs, values.attrs))
        o = np.asarray(out.data)
        sel = np.zeros(zn.shape, bool)
        for z in ids:
            m = zn == z
            sel |= m
            for k, n in zip(order, names):
                cell = o[k][m]
                exp = table[z][n]
                if not all(ok(n, g, exp) for g in cell.tolist()):
                    return r.fail("stats.da.value", "zone %s %s: cells %s expected %r" % (z, n, cell.tolist(), exp))
        if not np.isnan(o[:, ~sel]).all():
            return r.fail("stats.da.outside_not_nan", "cells outside the selected zones are not NaN: %s" % o.tolist())
    return r


BODIES = {"stats": body_stats}


@st.composite
def stats_cases(draw, max_side, max_zones=5):
    h, w = draw(S.shapes(1, max_side))
    zones, zkind = draw(zone_grid(h, w))
    vdtype = draw(st.sampled_from(["float64", "float64", "float32", "int32", "int64", "int16", "int8", "uint8"]))
    isf = vdtype.startswith("float")
    if isf:
        pal = draw(st.sampled_from([S.PAL_HALVES, S.PAL_SIGNED, S.PAL_NONF32 if vdtype == "float64" else S.PAL_HALVES, [0.0, 1.0, 2.0, 50.0, -30.5, 7.25]]))
        vdata = draw(S.grid(h, w, pal, specials=["nan", "inf", "-inf"]))
    else:
        pal = [0, 1, 2, 3, 7, 50, 100] + ([] if vdtype == "uint8" else [-1, -30])
        vdata = draw(S.grid(h, w, pal))
    zpres = _present(zones)
    nodata = draw(st.sampled_from([None, None, 0, 99, pal[0], zpres[0] if zpres else 1]))
    if vdtype in ("float64", "int32", "int64") and draw(st.integers(0, 5)) == 0:
        # valid values that lie next to the nodata value without being equal to it ("differ from nodata" is exact, not approximate):
        # tiny readings beside nodata 0, consecutive large codes beside a large nodata
        nodata = draw(st.sampled_from([0, 100000, 200000, -5000, 1000000]))
        if isf:
            near = [nodata, nodata + 4e-9 if nodata == 0 else nodata * (1 + 1e-7), nodata - 2e-9 if nodata == 0 else nodata * (1 - 1e-6),
                    nodata + 1, nodata - 0.5, nodata + 2]
        else:
            near = [nodata, nodata + 1, nodata + 2, nodata - 1, nodata + 7]
        vdata = draw(S.grid(h, w, near, specials=["nan"] if isf else []))
    zone_ids = None
    if zpres and draw(st.booleans()):
        # absent ids incl. fractional neighbours of present ids (2.5 on an integer raster must match nothing) and large near-equal ids
        extra = [77, zpres[0] + 0.5, zpres[-1] - 0.5, -0.5] if zkind == "int" else [77.5, zpres[0] + 1e-7, zpres[-1] * (1 + 1e-6) + 1e-6]
        zone_ids = draw(S.id_list(zpres, extra=extra, dtype=zones["dtype"]))
    user = draw(st.integers(0, 4)) == 0
    if user:
        names = draw(st.lists(st.sampled_from(sorted(Z.USER_REDUCERS)), min_size=1, max_size=4, unique=True))
    else:
        names = draw(st.lists(st.sampled_from(Z.STAT_NAMES), min_size=1, max_size=7, unique=True))
    return {"sub": "stats", "zones": zones, "values": {"dtype": vdtype, "data": vdata}, "nodata": nodata, "zone_ids": zone_ids,
            "stats": names, "user": user, "default_stats": (not user) and draw(st.integers(0, 9)) == 0 and False,
            "return_type": draw(st.sampled_from(["pandas.DataFrame", "pandas.DataFrame", "xarray.DataArray"])),
            "y": draw(S.axis_coords(h)), "x": draw(S.axis_coords(w)), "attrs": draw(st.sampled_from([{}, {"res": [1, 2], "nodata": -1}])),
            "zlayout": draw(st.sampled_from(["C", "C", "F", "view", "ro"])), "vlayout": draw(st.sampled_from(["C", "C", "F", "view", "ro"]))}


def shards(tier):
    n, per, side = (12, 400, 8) if tier == "quick" else (16, 25000, 14)
    return [("stats#%d" % i, lambda ctx: drive_hypothesis(ctx, body_stats, stats_cases(side), per)) for i in range(n)]


LEVEL_TEXT = ("Randomised search (Hypothesis; ~5k cases quick, ~400k thorough) over zone layouts, value dtypes, nodata, zone_ids, stat subsets, user reducers and "
              "both return types, compared row by row / cell by cell with brute-force per-zone masks evaluated in float64.")
LEVEL_NOTE = "Sampled; NumPy backend only (Dask is C03); oracle is mask arithmetic with math.fsum; float32 values compared at float32 tolerance."
TECHNIQUE = "property-based testing (Hypothesis) against a brute-force per-zone reference model"
