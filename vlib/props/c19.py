"""C19 - distance metrics are metrics; circle / annulus kernels are the stated shapes.

Sub-properties (case["sub"]):
  plane           euclidean / manhattan distance on point tuples: symmetry, d(p,p)=0, positivity, triangle inequality
  sphere          great-circle distance on lon/lat tuples (poles, antimeridian, antipodes, coincident, 1e-7 deg apart)
  sphere_invalid  ValueError for lon/lat outside [-180,180]/[-90,90] in every argument position
  circle          circle_kernel(cellsize_x, cellsize_y, radius) == exact-integer ellipse mask of the truncated half-widths
  annulus         annulus_kernel == outer mask - centred inner mask, entries in {0,1}
  dist_str        distance strings from a grammar: valid ones convert to metres, invalid ones raise ValueError
  cellsize        calc_cellsize == (res_x, |res_y|) * unit factor (res from attrs or from coordinates)
"""
import math
from decimal import Decimal
from fractions import Fraction

import numpy as np
from hypothesis import strategies as st

from ..core import R, drive_enum, drive_hypothesis

PROP = "C19"
RULE = (
    "Generator: (plane) 3-4 points with |coord| <= 1e6 from small-int / halves / 0.1-multiples / free-float palettes, forced coincident, "
    "near-coincident (1e-6..1e-3 apart), collinear and large-offset classes, float or all-int arguments, euclidean and manhattan; "
    "(sphere) 3-4 lon/lat points with forced poles, antimeridian +-180, exact and near antipodes, coincident, 1e-12..1e-6 deg apart, "
    "same-meridian / equator collinear triples, sphere radius default or drawn; (invalid) every argument position x out-of-range values "
    "(next float after the bound .. inf, latitudes that would be valid longitudes) x valid base points incl. the bounds themselves; "
    "(kernels) every (half_w, half_h) in 0..12 x 5 realisations (exact multiple, non-multiple, km/ft strings, float radius), random cell "
    "sizes (binary-exact, decimal, free; non-square in > half) x radii as int/float/numpy/decimal strings with units; annulus: all "
    "outer/inner radii k/2 <= 12 on 6 cell shapes plus random; (strings) grammar number ws* unit? with the 12 unit spellings in any "
    "letter case, negative classes non-positive / unknown unit / empty / two numbers / no number / unit first (must raise ValueError), "
    "lenient classes exponent, '+', trailing dot, leading blank, number+blank, tab (ValueError or the intended value); (cellsize) rasters "
    "with res attr as scalar/tuple/list/ndarray incl. negative y, unit attr, or coordinates only. "
    "Kernel-shape convention: the code computes r = metres(str(radius)); half_w = int(r / cellsize_x); half_h = int(r / cellsize_y) in IEEE "
    "doubles and the mask (x*half_h)^2 + (y*half_w)^2 <= (half_w*half_h)^2 on integer offsets, shape (2*half_h+1, 2*half_w+1). The statement "
    "says only 'the ellipse equation for radius/cellsize' and is silent on rounding; the TRUNCATION of radius/cellsize to whole cells before "
    "the ellipse equation is taken from the docstring example circle_kernel(1, 2, 3) and the code (decision recorded: no conflict with the "
    "statement); everything else (0/1 mask of the ellipse equation, flip symmetry, odd shape, outer minus centred inner, never negative) is "
    "from the statement. The oracle evaluates radius*factor/cellsize in exact rationals; when that quotient lies within 16 eps of an integer "
    "and the double evaluation is not exact, either neighbouring half-width is accepted and the case is counted as ambiguous - unless the radius "
    "is a whole multiple n of the cell size as written in decimal (1 over 0.1-wide cells) and the rounded double quotient lies in [n, n+1): then n "
    "is required. Cases where the "
    "un-truncated (real semi-axes) reading would give another mask are labelled real_axes_reading_differs. "
    "Non-trivial: metric cases with >= 2 non-coincident points; kernels with half_w != half_h; every rejection / string / cellsize case with "
    "a unit, res attr or non-square cell; distinct by SHA-1 of the case or enumeration index.")
ASSUMPTIONS = [
    "plane coordinates are 0 or have magnitude in [1e-9, 1e6], so squares of coordinate differences neither overflow nor fall into the "
    "subnormal range (the 4 eps relative rounding bound of sqrt(x*x+y*y) does not hold there); positivity only asserted for points >= 1e-6 apart",
    "sphere: lon in [-180,180], lat in [-90,90] (outside must raise); positivity asserted only when the true angular separation is >= 1e-6 deg; "
    "points identified on the sphere (lon +-180, any lon at a pole) need only be <= 1e-3 m apart; NaN coordinates are not generated",
    "triangle inequality up to the rounding of the formula: plane 4 eps (sum of sides); sphere 1e-6 m (scaled by R/6378137) + "
    "min(32 eps R tan(s/2), 2R sqrt(8 eps)) per side, s = true angular separation from an independent vector formula (any arcsin-type "
    "formula is ill-conditioned at the antipode, <= 0.55 m there)",
    "cell sizes are positive finite numbers; numeric radii lie in [1e-4, 1e16) so that str(radius) has no exponent (circle_kernel parses "
    "str(radius) and exponent notation is not part of its grammar); radius/cellsize <= 60 (quick) / 150 (thorough) to bound kernel memory",
    "annulus: inner radius <= outer radius is the domain; inner > outer is only required to raise or to return a non-negative kernel",
    "unit spellings are the 12 keys of the unit table (any letter case, blanks removed); other real-world spellings (mile, metre, mi, ...) are "
    "in neither the must-convert nor the must-reject class",
    "calc_cellsize: unit attr is a lower-case key of the unit table; res attr holds Python/NumPy floats or Python ints, x resolution positive; "
    "without res the raster has >= 2 cells per axis",
]
BUDGET_S = {"quick": 150, "thorough": 900}

EPS = 2.0 ** -52
R0 = 6378137.0
FACT = {"meter": Fraction(1), "meters": Fraction(1), "m": Fraction(1),
        "feet": Fraction("0.3048"), "foot": Fraction("0.3048"), "ft": Fraction("0.3048"),
        "miles": Fraction("1609.344"), "mls": Fraction("1609.344"), "ml": Fraction("1609.344"),
        "kilometer": Fraction(1000), "kilometers": Fraction(1000), "km": Fraction(1000)}
UNIT_KEYS = sorted(FACT)
VARIANT_SPELLINGS = ["mile", "metre", "metres", "kilometre", "kilometres", "mi", "k m", "f t"]   # neither class (observed only)
UNKNOWN_UNITS = ["parsec", "yd", "yard", "cm", "mm", "inch", "nm", "furlong", "xyz", "meterz", "kmm", "f", "k", "mt", "deg", "%", "m/s", "_m"]


# ------------------------------------------------------------------------------------------------ metric bodies

def _dist_fn(name):
    from xrspatial.proximity import euclidean_distance, great_circle_distance, manhattan_distance
    return {"euclidean": euclidean_distance, "manhattan": manhattan_distance, "great_circle": great_circle_distance}[name]


def body_plane(case, ctx):
    f = _dist_fn(case["metric"])
    m = case["metric"]
    conv = int if case.get("kind") == "int" else float
    pts = [(conv(p[0]), conv(p[1])) for p in case["pts"]]
    n = len(pts)
    r = R()
    r.label("plane:" + m, "plane:kind=" + case.get("kind", "float"), "plane:cls=" + case.get("cls", "?"))
    d = [[None] * n for _ in range(n)]
    for i in range(n):
        for j in range(n):
            d[i][j] = float(f(pts[i][0], pts[j][0], pts[i][1], pts[j][1]))
    distinct = False
    for i in range(n):
        if d[i][i] != 0.0:
            r.fail("%s.self_distance_nonzero" % m, "d(p,p)=%r for p=%r" % (d[i][i], pts[i]))
        for j in range(n):
            v = d[i][j]
            if not (math.isfinite(v) and v >= 0):
                r.fail("%s.negative_or_nonfinite" % m, "d(%r,%r)=%r" % (pts[i], pts[j], v))
            if v != d[j][i]:
                r.fail("%s.asymmetric" % m, "d(%r,%r)=%r but reversed %r" % (pts[i], pts[j], v, d[j][i]))
            same = pts[i] == pts[j]
            if same and v != 0.0:
                r.fail("%s.coincident_nonzero" % m, "d(%r,%r)=%r" % (pts[i], pts[j], v))
            sep = max(abs(pts[i][0] - pts[j][0]), abs(pts[i][1] - pts[j][1]))
            if not same:
                distinct = True
            if sep >= 1e-6 and not v > 0:
                r.fail("%s.distinct_points_zero" % m, "d(%r,%r)=%r" % (pts[i], pts[j], v))
    tight = False
    for i in range(n):
        for j in range(n):
            for k in range(n):
                if len({i, j, k}) < 3:
                    continue
                s = d[i][j] + d[j][k]
                slack = 4 * EPS * (s + d[i][k])
                if d[i][k] > s + slack:
                    r.fail("%s.triangle" % m, "d(a,c)=%r > d(a,b)+d(b,c)=%r (excess %.3g, slack %.3g) a=%r b=%r c=%r" % (
                        d[i][k], s, d[i][k] - s, slack, pts[i], pts[j], pts[k]))
                if s > 0 and d[i][k] >= s * (1 - 1e-9):
                    tight = True
    if tight:
        r.label("plane:triangle_tight")
    r.nt = distinct
    return r


def _sep_rad(p, q):
    """True angular separation (well-conditioned vector formula), independent of the haversine."""
    l1, f1, l2, f2 = map(math.radians, (p[0], p[1], q[0], q[1]))
    u = (math.cos(f1) * math.cos(l1), math.cos(f1) * math.sin(l1), math.sin(f1))
    v = (math.cos(f2) * math.cos(l2), math.cos(f2) * math.sin(l2), math.sin(f2))
    c = (u[1] * v[2] - u[2] * v[1], u[2] * v[0] - u[0] * v[2], u[0] * v[1] - u[1] * v[0])
    return math.atan2(math.sqrt(c[0] * c[0] + c[1] * c[1] + c[2] * c[2]), u[0] * v[0] + u[1] * v[1] + u[2] * v[2])


def _gc_err(sep, rad):
    """Forward bound on the rounding of an arcsin/haversine-type evaluation for two points whose TRUE separation is `sep`
    radians (from the independent vector formula, not from the value under test): relative error 8 eps in sin^2(sep/2) gives
    <= 4*8 eps R tan(sep/2), capped by 2R sqrt(8 eps) at the antipode; plus 1e-6 m (scaled) for the rounding of the inputs."""
    th = min(max(sep / 2, 0.0), math.pi / 2)
    cap = 2 * rad * math.sqrt(8 * EPS)
    first = 32 * EPS * rad * math.tan(th) if th < math.pi / 2 else cap
    return 1e-6 * rad / R0 + min(first, cap)


def body_sphere(case, ctx):
    f = _dist_fn("great_circle")
    pts = [(float(p[0]), float(p[1])) for p in case["pts"]]
    rad = case.get("radius")
    n = len(pts)
    r = R()
    r.label("sphere:cls=" + case.get("cls", "?"), "sphere:radius=" + ("default" if rad is None else "given"))
    radv = R0 if rad is None else float(rad)

    def call(p, q):
        if rad is None:
            return float(f(p[0], q[0], p[1], q[1]))
        return float(f(p[0], q[0], p[1], q[1], radv))
    d = [[None] * n for _ in range(n)]
    for i in range(n):
        for j in range(n):
            try:
                d[i][j] = call(pts[i], pts[j])
            except ValueError as e:
                return r.fail("great_circle.in_range_point_rejected", "great_circle_distance(x1=%r, x2=%r, y1=%r, y2=%r) raised %s" % (
                    pts[i][0], pts[j][0], pts[i][1], pts[j][1], e))
    err = [[_gc_err(_sep_rad(pts[i], pts[j]), radv) for j in range(n)] for i in range(n)]
    half = math.pi * radv
    distinct = False
    for i in range(n):
        if d[i][i] != 0.0:
            r.fail("great_circle.self_distance_nonzero", "d(p,p)=%r for p=%r" % (d[i][i], pts[i]))
        for j in range(n):
            v = d[i][j]
            if not math.isfinite(v) or v < 0:
                r.fail("great_circle.negative_or_nonfinite", "d(%r,%r)=%r R=%r" % (pts[i], pts[j], v, radv))
                continue
            if v > half * (1 + 1e-12):
                r.fail("great_circle.exceeds_half_circumference", "d(%r,%r)=%r > pi*R=%r" % (pts[i], pts[j], v, half))
            if abs(v - d[j][i]) > err[i][j]:
                r.fail("great_circle.asymmetric", "d(%r,%r)=%r but reversed %r" % (pts[i], pts[j], v, d[j][i]))
            if pts[i] == pts[j]:
                if v != 0.0:
                    r.fail("great_circle.coincident_nonzero", "d(%r,%r)=%r" % (pts[i], pts[j], v))
                continue
            distinct = True
            sep = _sep_rad(pts[i], pts[j])
            if sep >= math.radians(1e-6):
                if not v > 0:
                    r.fail("great_circle.distinct_points_zero", "d(%r,%r)=%r, true separation %.3g rad" % (pts[i], pts[j], v, sep))
            elif sep <= 1e-12:
                r.label("sphere:identified_pair")
                if v > 1e-3 * radv / R0:
                    r.fail("great_circle.identified_points_apart", "d(%r,%r)=%r for the same point of the sphere" % (pts[i], pts[j], v))
            if sep >= math.pi - 1e-6:
                r.label("sphere:antipodal_pair")
            if abs(pts[i][1]) == 90 or abs(pts[j][1]) == 90:
                r.label("sphere:pole_pair")
            if abs(pts[i][0]) == 180 or abs(pts[j][0]) == 180:
                r.label("sphere:antimeridian_pair")
    if r.fails:
        return r
    for i in range(n):
        for j in range(n):
            for k in range(n):
                if len({i, j, k}) < 3:
                    continue
                s = d[i][j] + d[j][k]
                slack = err[i][k] + err[i][j] + err[j][k] + 4 * EPS * (s + d[i][k])
                if d[i][k] > s + slack:
                    r.fail("great_circle.triangle", "d(a,c)=%r > d(a,b)+d(b,c)=%r (excess %.3g m, slack %.3g) a=%r b=%r c=%r R=%r" % (
                        d[i][k], s, d[i][k] - s, slack, pts[i], pts[j], pts[k], radv))
                if s > 0 and d[i][k] >= s * (1 - 1e-9):
                    r.label("sphere:triangle_tight")
    r.cls = sorted(set(r.cls))
    r.nt = distinct
    return r


def body_sphere_invalid(case, ctx):
    f = _dist_fn("great_circle")
    conv = int if case.get("kind") == "int" else float
    args = [conv(a) if not isinstance(a, str) else float(a) for a in case["args"]]     # x1, x2, y1, y2 ("inf" strings -> float)
    bad = case["bad"]                                                                    # positions that are out of range
    rad = case.get("radius")
    r = R(nt=True)
    names = ["x1", "x2", "y1", "y2"]
    r.label("invalid:pos=" + "+".join(names[i] for i in bad), "invalid:kind=" + case.get("kind", "float"))
    lim = [180, 180, 90, 90]
    for i in range(4):
        out = abs(args[i]) > lim[i]
        if out != (i in bad):
            return r.fail("harness.invalid_case_inconsistent", "case marks %r but argument %d=%r" % (bad, i, args[i]))
    try:
        v = f(*args) if rad is None else f(args[0], args[1], args[2], args[3], float(rad))
    except ValueError:
        return r
    return r.fail("great_circle.out_of_range_accepted(%s)" % "+".join(names[i] for i in bad),
                  "great_circle_distance(x1=%r, x2=%r, y1=%r, y2=%r) returned %r instead of raising ValueError" % (
                      args[0], args[1], args[2], args[3], v))


# ------------------------------------------------------------------------------------------------ kernel oracle

def _radius_arg(spec):
    a = spec.get("as", "str")
    if a == "str":
        return spec["num"] + spec.get("ws", "") + spec.get("unit", "")
    if a == "int":
        return int(spec["num"])
    if a == "npfloat":
        return np.float64(float(spec["num"]))
    return float(spec["num"])


def _radius_metres(spec):
    """(exact metres as Fraction, double metres, double evaluation exact?) for a radius spec."""
    a = spec.get("as", "str")
    unit = spec.get("unit", "").lower().replace(" ", "") if a == "str" else ""
    fac = FACT[unit] if unit else Fraction(1)
    dec = Fraction(Decimal(spec["num"]))
    v = float(spec["num"])
    if a != "str":
        dec = Fraction(int(spec["num"])) if a == "int" else Fraction(v)   # the code sees str(number), which round-trips
        v = float(dec)
    ff = float(fac)
    m = v * ff
    exact = (Fraction(v) == dec) and (Fraction(ff) == fac) and (Fraction(m) == Fraction(v) * Fraction(ff))
    return dec * fac, m, exact


def _half_widths(m_exact, m_fl, m_is_exact, cell):
    """Allowed truncated half-widths int(r/cell): ([allowed], ambiguous?, exact quotient)."""
    q = m_exact / Fraction(cell)
    n = int(q + Fraction(1, 2))
    inband = abs(q - n) <= 16 * Fraction(EPS) * q   # parse, unit conversion, division and any "snap to a whole cell within a few ulps" all live inside this band
    fl = q.numerator // q.denominator
    if not inband:
        return [fl], False, q
    qf = m_fl / cell
    if m_is_exact and Fraction(qf) == q and q >= n:
        return [fl], False, q     # at / a hair above a whole number of cells and evaluated exactly: truncation and any snapping agree on n
    # The radius is a whole multiple n of the cell size AS WRITTEN (shortest decimal reading of the cell size, e.g. radius 1 over 0.1-wide
    # cells, n = 10) although the binary double 0.1 is a hair above 1/10: the circle is n cells wide whenever the correctly rounded double
    # quotient lands in [n, n+1) - the cell one radius away along the axis belongs to it.  (When the double quotient itself falls short,
    # 0.3/0.1 = 2.9999999999999996, the case stays ambiguous.)
    if m_is_exact and m_exact / Fraction(Decimal(repr(float(cell)))) == n and n <= qf < n + 1:
        return [n], False, q
    # a hair BELOW a whole number n of cells (7.999999999999993 over unit cells), or evaluated inexactly: the statement is silent on whether
    # that is n-1 cells (truncation, the docstring's convention) or n (snapping a quotient a few ulps short of a whole number) - both accepted
    return sorted({max(n - 1, 0), n}), True, q


def _ellipse_mask(hw, hh):
    """Exact-integer ellipse mask: entry (y, x) = 1 <=> (x*hh)^2 + (y*hw)^2 <= (hw*hh)^2."""
    x = np.arange(-hw, hw + 1, dtype=np.int64)[None, :]      # (hw*hh)^2 <= 400^4 < 2^63: exact in int64
    y = np.arange(-hh, hh + 1, dtype=np.int64)[:, None]
    return ((x * hh) ** 2 + (y * hw) ** 2 <= (hw * hh) ** 2).astype(np.int64)


def _real_axes_mask(qx, qy, hw, hh):
    """Mask of the un-truncated reading (x/qx)^2 + (y/qy)^2 <= 1 on the same offsets (exact rationals)."""
    out = np.zeros((2 * hh + 1, 2 * hw + 1), dtype=np.int64)
    a2, b2 = qx * qx, qy * qy
    for j in range(-hh, hh + 1):
        for i in range(-hw, hw + 1):
            if i * i * b2 + j * j * a2 <= a2 * b2:
                out[j + hh, i + hw] = 1
    return out


def _check_kernel_values(r, what, k):
    if not isinstance(k, np.ndarray) or k.ndim != 2:
        r.fail("%s.not_2d_array" % what, "returned %r" % (type(k),))
        return False
    if k.shape[0] % 2 == 0 or k.shape[1] % 2 == 0:
        r.fail("%s.even_shape" % what, "shape %s" % (k.shape,))
        return False
    if not np.all((k == 0) | (k == 1)):
        vals = np.unique(k)
        r.fail("%s.entries_not_0_1%s" % (what, "(negative)" if (vals < 0).any() else ""), "distinct entries %s" % vals[:8])
        return False
    return True


def _expect_circle(r, what, spec, cx, cy):
    """Allowed half-widths for a radius spec; labels classes."""
    m_exact, m_fl, m_ok = _radius_metres(spec)
    hws, ax, qx = _half_widths(m_exact, m_fl, m_ok, cx)
    hhs, ay, qy = _half_widths(m_exact, m_fl, m_ok, cy)
    if ax or ay:
        r.amb += 1
        r.label(what + ":ambiguous_halfwidth")
    return hws, hhs, qx, qy


def body_circle(case, ctx):
    from xrspatial.convolution import circle_kernel
    cx, cy, spec = case["cx"], case["cy"], case["radius"]
    r = R()
    arg = _radius_arg(spec)
    hws, hhs, qx, qy = _expect_circle(r, "circle", spec, cx, cy)
    if case.get("steered"):
        r.excl += 1
    a = spec.get("as", "str")
    r.label("circle:radius_as=" + a, "circle:cells=" + ("square" if cx == cy else "nonsquare"),
            "circle:unit=" + (spec.get("unit", "").lower().replace(" ", "") or "none"))
    for q, nm in ((qx, "x"), (qy, "y")):
        if q < 1:
            r.label("circle:radius_lt_cell_" + nm)
    if qx.denominator == 1 and qy.denominator == 1:
        r.label("circle:radius_multiple_of_both_cells")
    elif qx.denominator != 1 and qy.denominator != 1:
        r.label("circle:radius_multiple_of_neither")
    else:
        r.label("circle:radius_multiple_of_one_cell")
    try:
        k = circle_kernel(cx, cy, arg)
    except ValueError as e:
        return r.fail("circle.valid_radius_rejected(as=%s)" % a, "circle_kernel(%r, %r, %r) raised ValueError(%s)" % (cx, cy, arg, str(e)[:60]))
    if not _check_kernel_values(r, "circle", k):
        return r
    hh, hw = (k.shape[0] - 1) // 2, (k.shape[1] - 1) // 2
    if hw not in hws or hh not in hhs:
        return r.fail("circle.shape(half-widths != trunc(radius/cellsize))",
                      "circle_kernel(%r, %r, %r): shape %s => half_w=%d half_h=%d, expected half_w in %s (r/cx=%.17g), half_h in %s (r/cy=%.17g)" % (
                          cx, cy, arg, k.shape, hw, hh, hws, float(qx), hhs, float(qy)))
    exp = _ellipse_mask(hw, hh)
    r.nt = hw != hh
    r.label("circle:half_w%shalf_h" % ("==" if hw == hh else "!="))
    if hw == 0 or hh == 0:
        r.label("circle:degenerate_axis")
    if not np.array_equal(k, exp):
        bad = np.argwhere(k != exp)[0]
        r.fail("circle.mask(cell at offset disagrees with integer ellipse equation)",
               "circle_kernel(%r, %r, %r) half_w=%d half_h=%d: entry at offset (y=%d, x=%d) is %r, ellipse equation gives %d" % (
                   cx, cy, arg, hw, hh, bad[0] - hh, bad[1] - hw, k[bad[0], bad[1]], exp[bad[0], bad[1]]))
    if not (np.array_equal(k, k[::-1, :]) and np.array_equal(k, k[:, ::-1])):
        r.fail("circle.flip_asymmetric", "circle_kernel(%r, %r, %r) differs from its axis flip" % (cx, cy, arg))
    if k[hh, hw] != 1:
        r.fail("circle.centre_not_1", "centre entry %r" % k[hh, hw])
    if max(hw, hh) <= 12 and not np.array_equal(_real_axes_mask(qx, qy, hw, hh), exp):
        r.label("circle:real_axes_reading_differs")
    return r


def body_annulus(case, ctx):
    from xrspatial.convolution import _get_distance, annulus_kernel
    cx, cy, so, si = case["cx"], case["cy"], case["outer"], case["inner"]
    r = R()
    ao, ai = _radius_arg(so), _radius_arg(si)
    mo = _radius_metres(so)[0]
    mi = _radius_metres(si)[0]
    ohws, ohhs, oqx, oqy = _expect_circle(r, "annulus", so, cx, cy)
    ihws, ihhs, iqx, iqy = _expect_circle(r, "annulus", si, cx, cy)
    r.label("annulus:cells=" + ("square" if cx == cy else "nonsquare"))
    if mi > mo:
        # outside the annulus domain: may raise; if it returns, never negative
        r.label("annulus:inner_gt_outer")
        try:
            k = annulus_kernel(cx, cy, ao, ai)
        except Exception as e:  # noqa: any rejection is acceptable here
            r.label("annulus:inner_gt_outer_raises_" + type(e).__name__)
            return r
        r.label("annulus:inner_gt_outer_returns")
        if np.min(k) < 0:
            r.fail("annulus.negative(inner > outer)", "annulus_kernel(%r, %r, %r, %r) has entry %r" % (cx, cy, ao, ai, np.min(k)))
        return r
    # equal radii written differently may round to different half-widths inside the band: then "inner fits in outer" is itself undecided
    fit_amb = max(ihws) > min(ohws) or max(ihhs) > min(ohhs)
    if so != si and abs(mi - mo) <= 16 * Fraction(EPS) * mo:
        fit_amb = True   # the same length written twice (1.64 feet and 0.499872 m): which of the two doubles is larger is a matter of rounding
    try:
        k = annulus_kernel(cx, cy, ao, ai)
    except ValueError:
        if fit_amb:
            r.label("annulus:fit_ambiguous")
            return r
        for nm, sp in (("outer", so), ("inner", si)):      # which radius is it that the parser refuses?
            try:
                _get_distance(str(_radius_arg(sp)))
            except ValueError as e:
                return r.fail("annulus.valid_radius_rejected(as=%s)" % sp.get("as", "str"),
                              "annulus_kernel(%r, %r, %r, %r): %s radius raised ValueError(%s)" % (cx, cy, ao, ai, nm, str(e)[:60]))
        raise
    if not _check_kernel_values(r, "annulus", k):
        return r
    hh, hw = (k.shape[0] - 1) // 2, (k.shape[1] - 1) // 2
    if hw not in ohws or hh not in ohhs:
        return r.fail("annulus.shape(!= outer circle)", "annulus_kernel(%r, %r, %r, %r): shape %s, outer half_w in %s half_h in %s" % (
            cx, cy, ao, ai, k.shape, ohws, ohhs))
    outer = _ellipse_mask(hw, hh)
    # candidate inner half-widths (more than one only inside the rounding band)
    cands = []
    for iw in ihws:
        for ih in ihhs:
            if iw <= hw and ih <= hh:
                e = outer.copy()
                e[hh - ih:hh + ih + 1, hw - iw:hw + iw + 1] -= _ellipse_mask(iw, ih)
                cands.append((iw, ih, e))
    if not cands and fit_amb:
        r.label("annulus:fit_ambiguous")
        return r
    if not cands:
        return r.fail("harness.annulus_no_candidate", "inner half-widths %s/%s exceed outer %d/%d" % (ihws, ihhs, hw, hh))
    r.nt = hw != hh
    iw0, ih0 = cands[0][0], cands[0][1]
    r.label("annulus:outer_half_w%shalf_h" % ("==" if hw == hh else "!="),
            "annulus:inner=" + ("single_cell" if (iw0, ih0) == (0, 0) else "same_as_outer" if (iw0, ih0) == (hw, hh) else
                                "degenerate_axis" if 0 in (iw0, ih0) else "proper"))
    if not any(np.array_equal(k, e) for _, _, e in cands):
        iw, ih, e = cands[0]
        bad = np.argwhere(k != e)[0]
        r.fail("annulus.mask(!= outer - centred inner)",
               "annulus_kernel(%r, %r, %r, %r): outer half (w=%d,h=%d) inner half (w=%d,h=%d): entry at offset (y=%d, x=%d) is %r, expected %d" % (
                   cx, cy, ao, ai, hw, hh, iw, ih, bad[0] - hh, bad[1] - hw, k[bad[0], bad[1]], e[bad[0], bad[1]]))
    return r


# ------------------------------------------------------------------------------------------------ strings / cellsize

def body_dist_str(case, ctx):
    from xrspatial.convolution import _get_distance, circle_kernel
    s, expect = case["s"], case["expect"]
    r = R(nt=True)
    r.label("str:%s:%s" % (expect, case.get("cls", "?")))

    def intended():
        fac = FACT[case["unit"].lower().replace(" ", "")] if case.get("unit") else Fraction(1)
        return Fraction(Decimal(case["num"])) * fac

    def close(v, m):
        return isinstance(v, (int, float)) and math.isfinite(v) and abs(Fraction(float(v)) - m) <= 4 * Fraction(EPS) * m

    if expect == "valid":
        m = intended()
        r.label("str:unit=" + (case.get("unit", "").lower().strip() or "none"))
        try:
            v = _get_distance(s)
        except ValueError as e:
            style = "lower" if case.get("unit", "") == case.get("unit", "").lower() else "has_upper_case"
            return r.fail("string.valid_rejected(unit=%s,%s)" % (case.get("unit", "").lower().strip() or "none", style),
                          "_get_distance(%r) raised ValueError(%s)" % (s, str(e)[:60]))
        if not close(v, m):
            r.fail("string.wrong_metres(unit=%s)" % (case.get("unit", "").lower() or "none"),
                   "_get_distance(%r) = %r, expected %s m" % (s, v, float(m)))
        c = float(m) / 2.5
        k = circle_kernel(c, c, s)
        if k.shape != (5, 5):
            r.fail("string.kernel_radius_not_converted(unit=%s)" % (case.get("unit", "").lower() or "none"),
                   "circle_kernel(%r, %r, %r).shape = %s, expected (5, 5) for radius = 2.5 cells" % (c, c, s, k.shape))
        return r
    if expect == "invalid":
        for nm, fn in (("_get_distance", lambda: _get_distance(s)), ("circle_kernel", lambda: circle_kernel(1.0, 1.0, s))):
            try:
                v = fn()
            except ValueError:
                continue
            r.fail("string.accepted(%s)" % case.get("cls", "?"), "%s(%r) returned %s instead of raising ValueError" % (
                nm, s, getattr(v, "shape", v)))
        return r
    if expect == "nonfinite":
        try:
            k = circle_kernel(1.0, 1.0, s)
        except (ValueError, OverflowError) as e:
            r.label("str:nonfinite_rejected_by_" + type(e).__name__)
            return r
        return r.fail("string.accepted(nonfinite)", "circle_kernel(1, 1, %r) returned shape %s" % (s, getattr(k, "shape", k)))
    if expect == "observe_numeric":          # numeric radius whose str() uses exponent notation: outside the asserted domain, recorded only
        try:
            k = circle_kernel(case["cell"], case["cell"], case["value"])
            r.label("str:observed_accepted:numeric_radius_exponent_repr(shape=%dx%d)" % k.shape)
        except ValueError:
            r.label("str:observed_rejected:numeric_radius_exponent_repr")
        return r
    if expect == "observe":
        try:
            v = _get_distance(s)
            r.label("str:observed_accepted:" + case.get("cls", "?"))
            if case.get("num") and case.get("unit") in ("k m", "f t") and not close(v, intended()):
                r.fail("string.wrong_metres(spaced unit)", "_get_distance(%r) = %r" % (s, v))
        except ValueError:
            r.label("str:observed_rejected:" + case.get("cls", "?"))
        return r
    # lenient: ValueError, or the intended value
    m = intended()
    try:
        v = _get_distance(s)
    except ValueError:
        r.label("str:lenient_rejected:" + case.get("cls", "?"))
        return r
    r.label("str:lenient_accepted:" + case.get("cls", "?"))
    if not close(v, m):
        r.fail("string.silently_wrong_value(%s)" % case.get("cls", "?"), "_get_distance(%r) = %r, the string means %s m" % (s, v, float(m)))
    return r


def body_cellsize(case, ctx):
    import xarray as xr
    from xrspatial.convolution import calc_cellsize
    h, w = case["h"], case["w"]
    ys = case["y0"] + case["ystep"] * np.arange(h, dtype="float64")
    xs = case["x0"] + case["xstep"] * np.arange(w, dtype="float64")
    if case.get("ydesc"):
        ys = ys[::-1].copy()
    if case.get("xdesc"):
        xs = xs[::-1].copy()
    attrs = {}
    res, kind = case.get("res"), case.get("res_kind")
    if res is not None:
        attrs["res"] = {"scalar": lambda v: v, "tuple": tuple, "list": list, "ndarray": lambda v: np.array(v, dtype="float64")}[kind](res)
    unit = case.get("unit")
    if unit is not None:
        attrs["unit"] = unit
    ras = xr.DataArray(np.zeros((h, w)), dims=case.get("dims", ["y", "x"]), attrs=attrs)
    ras[ras.dims[0]] = ys
    ras[ras.dims[1]] = xs
    fac = float(FACT[unit]) if unit is not None else 1.0
    if res is None:
        ex = (float(xs.max()) - float(xs.min())) / (w - 1)
        ey = (float(ys.max()) - float(ys.min())) / (h - 1)
        src = "coords"
    elif kind == "scalar":
        ex = ey = float(res)
        src = "res_scalar"
    else:
        ex, ey = float(res[0]), float(res[1])
        src = "res_" + kind
    r = R()
    r.label("cellsize:src=" + src, "cellsize:unit=" + (unit or "absent"))
    if ey < 0:
        r.label("cellsize:negative_y_res")
    ex, ey = ex * fac, abs(ey) * fac
    r.nt = (fac != 1.0) or (res is not None) or (ex != ey)
    out = calc_cellsize(ras)
    if not (isinstance(out, tuple) and len(out) == 2):
        return r.fail("cellsize.not_a_pair", "returned %r" % (out,))
    ox, oy = float(out[0]), float(out[1])
    for nm, o, e in (("x", ox, ex), ("y", oy, ey)):
        if not (math.isfinite(o) and abs(o - e) <= 1e-12 * abs(e)):
            r.fail("cellsize.%s(src=%s,unit=%s)" % (nm, src, "absent" if unit is None else "factor" if fac != 1 else "metre"),
                   "calc_cellsize -> %r, expected (%r, %r) for attrs=%r x=%r.. y=%r.." % (out, ex, ey, attrs, xs[:2], ys[:2]))
    return r


BODIES = {"plane": body_plane, "sphere": body_sphere, "sphere_invalid": body_sphere_invalid, "circle": body_circle,
          "annulus": body_annulus, "dist_str": body_dist_str, "cellsize": body_cellsize}


# ------------------------------------------------------------------------------------------------ strategies: metrics

SMALL = [-3, -2, -1, 0, 1, 2, 3, 4, 5, 7, 12]
HALVES = [-2.5, -1.0, -0.5, 0.0, 0.25, 0.5, 1.5, 2.0, 3.75, 8.0]
TENTHS = [0.1, 0.2, 0.3, 0.7, 1.1, 2.3, -0.1, 142.32, 23.23, 312.54, 432.01, 1e6 - 0.1, -1e6 + 0.3]


def _coord(kind):
    if kind == "small":
        return st.sampled_from(SMALL).map(float)
    if kind == "halves":
        return st.sampled_from(HALVES)
    if kind == "tenths":
        return st.sampled_from(TENTHS)
    # non-zero coordinates have magnitude >= 1e-9: squares of coordinate differences (>= 1 ulp of 1e-9 = 2e-25) never underflow
    return st.floats(-1e6, 1e6, allow_nan=False, allow_infinity=False, width=64).map(lambda v: 0.0 if abs(v) < 1e-9 else v)


@st.composite
def plane_cases(draw):
    metric = draw(st.sampled_from(["euclidean", "manhattan"]))
    kind = draw(st.sampled_from(["float", "float", "float", "int"]))
    n = draw(st.sampled_from([3, 3, 4]))
    if kind == "int":
        big = draw(st.booleans())
        c = st.integers(-1000000, 1000000) if big else st.sampled_from(SMALL)
        pts = [[draw(c), draw(c)] for _ in range(n)]
        if draw(st.booleans()):
            pts[1] = list(pts[0])
        return {"sub": "plane", "metric": metric, "kind": "int", "cls": "int_big" if big else "int_small", "pts": pts}
    cls = draw(st.sampled_from(["generic", "generic", "coincident", "near", "collinear", "offset", "axis"]))
    pal = draw(st.sampled_from(["small", "halves", "tenths", "free", "free"]))
    c = _coord(pal)
    pts = [[draw(c), draw(c)] for _ in range(n)]
    if cls == "coincident":
        pts[draw(st.integers(1, n - 1))] = list(pts[0])
    elif cls == "near":
        e = draw(st.sampled_from([1e-6, 2e-6, 1e-5, 1e-4, 1e-3, 1e-9, 1e-12]))
        sx, sy = draw(st.sampled_from([(1, 0), (0, 1), (1, 1), (-1, 1), (-1, -1)]))
        pts[1] = [pts[0][0] + sx * e, pts[0][1] + sy * e]
    elif cls == "collinear":
        t = draw(st.sampled_from([0.5, 0.25, 0.75, 0.125, 0.1, 1.0 / 3, 0.9, 0.0, 1.0, 2.0, -1.0]))
        pts[1] = [pts[0][0] + t * (pts[2][0] - pts[0][0]), pts[0][1] + t * (pts[2][1] - pts[0][1])]
    elif cls == "offset":
        ox, oy = draw(st.sampled_from([(1e6, 1e6), (-1e6, 5e5), (123456.789, -654321.123), (1e6 - 1, 0.0)]))
        sc = draw(st.sampled_from([1.0, 0.001, 1e-6]))
        pts = [[min(1e6, max(-1e6, ox + sc * (p[0] % 10))), min(1e6, max(-1e6, oy + sc * (p[1] % 10)))] for p in pts]
    elif cls == "axis":
        ax = draw(st.integers(0, 1))
        for p in pts:
            p[ax] = pts[0][ax]
    return {"sub": "plane", "metric": metric, "kind": "float", "cls": cls + "/" + pal, "pts": pts}


LONS = [-180.0, 180.0, 0.0, 90.0, -90.0, 45.0, -135.0, 179.9999999, -179.9999999, 123.2, 178.0, 1e-7, -1e-7]
LATS = [-90.0, 90.0, 0.0, 45.0, -45.0, 89.9999999, -89.9999999, 82.32, 65.09, 1e-7, -1e-7, 30.0, 60.0]


def _clip(v, lim):
    return max(-lim, min(lim, v))


def _antipode(p):
    lon = p[0] + 180.0 if p[0] <= 0 else p[0] - 180.0
    return [_clip(lon, 180.0), -p[1]]


@st.composite
def sphere_point(draw):
    k = draw(st.sampled_from(["free", "free", "grid", "pole", "antimeridian"]))
    if k == "grid":
        return [draw(st.sampled_from(LONS)), draw(st.sampled_from(LATS))]
    lon = draw(st.floats(-180, 180, allow_nan=False, width=64))
    lat = draw(st.floats(-90, 90, allow_nan=False, width=64))
    if k == "pole":
        lat = draw(st.sampled_from([90.0, -90.0]))
    elif k == "antimeridian":
        lon = draw(st.sampled_from([180.0, -180.0]))
    return [lon, lat]


@st.composite
def sphere_cases(draw):
    n = draw(st.sampled_from([3, 3, 4]))
    cls = draw(st.sampled_from(["generic", "generic", "antipodes", "near_antipodes", "coincident", "near", "identified", "meridian",
                                "equator", "pole_triple"]))
    pts = [draw(sphere_point()) for _ in range(n)]
    if cls == "antipodes":
        pts[n - 1] = _antipode(pts[0])
        if draw(st.booleans()):          # b close to a: the other side is near-antipodal
            e = draw(st.sampled_from([1e-7, 1e-5, 1e-3, 1.0]))
            pts[1] = [_clip(pts[0][0] + e, 180.0), _clip(pts[0][1] - e, 90.0)]
    elif cls == "near_antipodes":
        a = _antipode(pts[0])
        e1 = draw(st.sampled_from([0.0, 1e-12, 1e-9, 1e-7, -1e-7, 1e-5, 1e-3]))
        e2 = draw(st.sampled_from([0.0, 1e-12, 1e-9, 1e-7, -1e-7, 1e-5, 1e-3]))
        pts[n - 1] = [_clip(a[0] + e1, 180.0), _clip(a[1] + e2, 90.0)]
    elif cls == "coincident":
        pts[draw(st.integers(1, n - 1))] = list(pts[0])
    elif cls == "near":
        e = draw(st.sampled_from([1e-7, -1e-7, 1e-6, 2e-6, 1e-9, 1e-12, 1e-5, 1e-3]))
        sx, sy = draw(st.sampled_from([(1, 0), (0, 1), (1, 1), (-1, 1)]))
        pts[1] = [_clip(pts[0][0] + sx * e, 180.0), _clip(pts[0][1] + sy * e, 90.0)]
    elif cls == "identified":
        if draw(st.booleans()):
            lat = draw(st.sampled_from([90.0, -90.0]))
            pts[0][1] = lat
            pts[1] = [draw(st.floats(-180, 180, allow_nan=False)), lat]
        else:
            pts[0][0] = 180.0
            pts[1] = [-180.0, pts[0][1]]
    elif cls == "meridian":
        lon = pts[0][0]
        lats = sorted(draw(st.lists(st.floats(-90, 90, allow_nan=False), min_size=n, max_size=n)))
        pts = [[lon, la] for la in lats]
        pts[0], pts[1] = pts[1], pts[0]          # b is no longer in the middle for one ordering; all orderings are checked anyway
    elif cls == "equator":
        lons = sorted(draw(st.lists(st.floats(-180, 180, allow_nan=False), min_size=n, max_size=n)))
        lat = draw(st.sampled_from([0.0, 0.0, 45.0, -60.0]))
        pts = [[lo, lat] for lo in lons]
    elif cls == "pole_triple":
        pts[0] = [draw(st.sampled_from(LONS)), 90.0]
        pts[n - 1] = [draw(st.sampled_from(LONS)), -90.0]
    radius = draw(st.sampled_from([None, None, None, 6378137.0, 6371008.8, 1.0, 3389500.0, 1e9, 0.001]))
    return {"sub": "sphere", "cls": cls, "pts": pts, "radius": radius}


def _next_up(v):
    return float(np.nextafter(v, np.inf))


BAD_LON = [_next_up(180.0), 180.0000001, 180.5, 181.0, 270.0, 360.0, 540.0, 1e6, 1e300, "inf"]
BAD_LAT = [_next_up(90.0), 90.0000001, 90.5, 91.0, 100.0, 135.0, 180.0, 360.0, 1e6, 1e300, "inf"]
BASES = [(0.0, 0.0, 0.0, 0.0), (180.0, -180.0, 90.0, -90.0), (-180.0, 180.0, -90.0, 90.0), (123.2, 178.0, 82.32, 65.09), (-45.5, 10.25, -30.0, 60.0)]


def _neg(v):
    return "-inf" if v == "inf" else ("inf" if v == "-inf" else -v)


def invalid_enum():
    """Every argument position x out-of-range value x sign x valid base; then every pair of positions."""
    for base in BASES:
        for pos in range(4):
            for v in (BAD_LON if pos < 2 else BAD_LAT):
                for sgn in (1, -1):
                    a = list(base)
                    a[pos] = v if sgn > 0 else _neg(v)
                    yield {"sub": "sphere_invalid", "args": a, "bad": [pos], "kind": "float", "radius": None}
    for base in BASES[:2]:
        for p in range(4):
            for q in range(p + 1, 4):
                a = list(base)
                a[p] = (BAD_LON if p < 2 else BAD_LAT)[3]
                a[q] = -(BAD_LON if q < 2 else BAD_LAT)[4]
                yield {"sub": "sphere_invalid", "args": a, "bad": [p, q], "kind": "float", "radius": None}
    for pos in range(4):                  # all-integer arguments (the form used by the repository's own test)
        for v in ([181, -181, 360] if pos < 2 else [91, -91, 180]):
            a = [0, 0, 0, 0]
            a[pos] = v
            yield {"sub": "sphere_invalid", "args": a, "bad": [pos], "kind": "int", "radius": None}
    for pos in range(4):                  # explicit radius argument
        a = [10.0, 20.0, 30.0, 40.0]
        a[pos] = 200.0
        yield {"sub": "sphere_invalid", "args": a, "bad": [pos], "kind": "float", "radius": 1.0}


@st.composite
def invalid_cases(draw):
    p = draw(sphere_point())
    q = draw(sphere_point())
    a = [p[0], q[0], p[1], q[1]]
    bad = sorted(draw(st.lists(st.integers(0, 3), min_size=1, max_size=3, unique=True)))
    for pos in bad:
        lim = 180.0 if pos < 2 else 90.0
        mode = draw(st.sampled_from(["just", "table", "free"]))
        if mode == "just":
            v = lim * (1 + draw(st.sampled_from([EPS, 1e-15, 1e-12, 1e-9, 1e-6])))
            v = max(v, _next_up(lim))
        elif mode == "table":
            v = draw(st.sampled_from([x for x in (BAD_LON if pos < 2 else BAD_LAT) if x != "inf"]))
        else:
            v = draw(st.floats(_next_up(lim), 1e12, allow_nan=False, allow_infinity=False))
        a[pos] = v if draw(st.booleans()) else -v
    return {"sub": "sphere_invalid", "args": a, "bad": bad, "kind": "float",
            "radius": draw(st.sampled_from([None, None, 6371008.8]))}


# ------------------------------------------------------------------------------------------------ strategies: kernels

def _dec(x, nd=6):
    """Plain positional decimal string of a non-negative number (no exponent)."""
    s = "%.*f" % (nd, x)
    if "." in s:
        s = s.rstrip("0").rstrip(".")
    return s or "0"


def _rand_case(u, draw):
    return "".join(ch.upper() if draw(st.booleans()) else ch for ch in u)


@st.composite
def unit_text(draw):
    u = draw(st.sampled_from(UNIT_KEYS))
    style = draw(st.sampled_from(["lower", "lower", "upper", "title", "mixed"]))
    return {"lower": u, "upper": u.upper(), "title": u.title(), "mixed": _rand_case(u, draw)}[style]


@st.composite
def num_text(draw, lo_int=0, hi_int=60):
    """Positive decimal literal: D, D.F, .F, with optional leading / trailing zeros."""
    form = draw(st.sampled_from(["int", "int", "frac", "frac", "dotfrac", "lead0", "trail0"]))
    ip = draw(st.integers(lo_int, hi_int))
    fr = draw(st.sampled_from(["5", "25", "75", "1", "3", "9", "125", "999", "001", "0625", "333333"]))
    if form == "int":
        return str(max(ip, 1))
    if form == "dotfrac":
        return "." + fr
    if form == "lead0":
        return "00" + str(max(ip, 1))
    if form == "trail0":
        return "%d.%s0" % (ip, fr)
    return "%d.%s" % (ip, fr)


CELL_EXACT = [1.0, 2.0, 0.5, 0.25, 3.0, 30.0, 0.125, 10.0, 1000.0]
CELL_DEC = [0.1, 0.3, 2.5, 0.7, 1.1, 0.00025, 333.3333333333333, 29.99, 1e-05, 0.01]


@st.composite
def cell_sizes(draw):
    k = draw(st.sampled_from(["exact", "exact", "exact", "dec", "free", "free"]))
    pool = {"exact": st.sampled_from(CELL_EXACT), "dec": st.sampled_from(CELL_DEC),
            "free": st.floats(1e-3, 1e4, allow_nan=False, allow_infinity=False)}[k]
    cx = draw(pool)
    shape = draw(st.sampled_from(["square", "nonsquare", "nonsquare", "nonsquare"]))
    if shape == "square":
        return cx, cx
    mode = draw(st.sampled_from(["pool", "ratio"]))
    cy = draw(pool) if mode == "pool" else cx * draw(st.sampled_from([2.0, 0.5, 3.0, 1.5, 0.75, 1.25, 4.0, 1.0 / 3]))
    return cx, cy


@st.composite
def radius_spec(draw, cx, cy, qmax, steer=None):
    """A radius with radius/min(cell) <= qmax: target a quotient first, then express it as int / float / string with unit."""
    cmin, cmax = min(cx, cy), max(cx, cy)
    mode = draw(st.sampled_from(["multiple", "multiple", "multiple", "nonmultiple", "nonmultiple", "nonmultiple", "lt_cell", "between",
                                 "free", "free"]))
    kmax = max(1, int(qmax))
    if mode == "multiple":
        base = draw(st.sampled_from([cx, cy]))
        k = draw(st.integers(1, max(1, min(kmax, int(qmax * cmin / base)))))
        m = k * base
    elif mode == "nonmultiple":
        k = draw(st.integers(0, max(0, min(kmax, int(qmax * cmin / cmax)) - 1)))
        m = (k + draw(st.sampled_from([0.5, 0.25, 0.75, 0.1, 0.9, 0.999, 0.001, 0.41421356]))) * draw(st.sampled_from([cx, cy]))
    elif mode == "lt_cell":
        m = cmin * draw(st.sampled_from([0.5, 0.9, 0.1, 0.999999, 0.01]))
    elif mode == "between":               # >= one cell size, < the other
        m = cmin + (cmax - cmin) * draw(st.sampled_from([0.0, 0.5, 0.999, 0.25])) if cmax > cmin else cmin * 1.5
    else:
        m = cmin * draw(st.floats(0.05, float(qmax), allow_nan=False))
    m = min(m, qmax * cmin)
    how = draw(st.sampled_from(["str_unit", "str_unit", "str_plain", "float", "float", "int", "npfloat"]))
    if how == "int":
        v = max(1, int(round(m)))
        if v / cmin > qmax:
            how = "float"
        else:
            return {"num": str(v), "as": "int"}
    if how in ("float", "npfloat"):
        v = float(m)
        if 1e-4 <= v < 1e16:
            return {"num": repr(v), "as": how}
        if steer is not None:
            steer.append(1)           # str(v) would use exponent notation: outside the numeric-radius domain, use the decimal string
        how = "str_plain"
    if how == "str_plain":
        num = _dec(m, 12)
        if Fraction(Decimal(num)) <= 0:
            num = "0.000000000001"
        return {"num": num, "ws": "", "unit": "", "as": "str"}
    unit = draw(unit_text())
    fac = float(FACT[unit.lower()])
    num = _dec(m / fac, draw(st.sampled_from([3, 6, 9, 12])))
    if Fraction(Decimal(num)) <= 0:
        num = _dec(m / fac, 15)
        if Fraction(Decimal(num)) <= 0:
            num = "0.000000000000001"
    if num.startswith("0.") and draw(st.booleans()):
        num = num[1:]                  # ".5" form
    ws = draw(st.sampled_from(["", "", " ", "  ", "   "]))
    trail = draw(st.sampled_from(["", "", " "]))
    return {"num": num, "ws": ws, "unit": unit + trail, "as": "str"}


def _cap_ok(spec, cx, cy, qmax):
    m = _radius_metres(spec)[0]
    return m > 0 and m / Fraction(min(cx, cy)) <= qmax + 1


@st.composite
def circle_cases(draw, qmax):
    cx, cy = draw(cell_sizes())
    steer = []
    spec = draw(radius_spec(cx, cy, qmax, steer))
    if not _cap_ok(spec, cx, cy, qmax):              # rounding of the decimal text pushed it over the cap (rare): fall back to one cell
        spec = {"num": _dec(min(cx, cy), 12), "ws": "", "unit": "", "as": "str"}
    case = {"sub": "circle", "cx": cx, "cy": cy, "radius": spec}
    if steer:
        case["steered"] = True
    return case


@st.composite
def annulus_cases(draw, qmax):
    cx, cy = draw(cell_sizes())
    so = draw(radius_spec(cx, cy, qmax))
    if not _cap_ok(so, cx, cy, qmax):
        so = {"num": _dec(2 * max(cx, cy), 12), "ws": "", "unit": "", "as": "str"}
    mo = float(_radius_metres(so)[0])
    rel = draw(st.sampled_from(["frac", "frac", "frac", "equal", "tiny", "cells", "greater"]))
    if rel == "equal":
        si = dict(so)
    else:
        if rel == "frac":
            mi = mo * draw(st.sampled_from([0.5, 0.25, 0.75, 0.9, 0.1, 0.99, 1.0 / 3]))
        elif rel == "tiny":
            mi = min(cx, cy) * draw(st.sampled_from([0.5, 0.1, 0.99]))
            mi = min(mi, mo)
        elif rel == "cells":
            mi = min(mo, draw(st.sampled_from([cx, cy, 2 * cx, 2 * cy, 1.5 * cx])))
        else:
            mi = mo * draw(st.sampled_from([1.000001, 1.1, 1.5, 2.0, 3.0]))
        how = draw(st.sampled_from(["float", "str", "str_unit"]))
        if how == "float" and 1e-4 <= mi < 1e16:
            si = {"num": repr(float(mi)), "as": "float"}
        elif how == "str_unit":
            unit = draw(unit_text())
            num = _dec(mi / float(FACT[unit.lower()]), 12)
            si = {"num": num, "ws": draw(st.sampled_from(["", " "])), "unit": unit, "as": "str"}
        else:
            si = {"num": _dec(mi, 12), "ws": "", "unit": "", "as": "str"}
        if Fraction(Decimal(si["num"])) <= 0:
            si = {"num": "0.000000000001", "ws": "", "unit": "", "as": "str"}
    if not _cap_ok(si, cx, cy, 3 * qmax):
        si = dict(so)
    return {"sub": "annulus", "cx": cx, "cy": cy, "outer": so, "inner": si}


def circle_enum(max_half=12):
    """Every (half_w, half_h) <= max_half in five realisations."""
    for hw in range(max_half + 1):
        for hh in range(max_half + 1):
            tag = [hw, hh]
            # 1. radius an exact multiple of both cell sizes (integers only)
            if hw and hh:
                yield {"sub": "circle", "cx": float(hh), "cy": float(hw), "radius": {"num": str(hw * hh), "as": "int"}, "enum": tag + [1]}
            elif hw or hh:
                k = max(hw, hh)
                c = (2.0 * k, 1.0) if hw == 0 else (1.0, 2.0 * k)
                yield {"sub": "circle", "cx": c[0], "cy": c[1], "radius": {"num": str(k), "as": "int"}, "enum": tag + [1]}
            else:
                yield {"sub": "circle", "cx": 2.0, "cy": 2.0, "radius": {"num": "1", "as": "int"}, "enum": tag + [1]}
            # 2. radius a multiple of neither cell size, float radius
            yield {"sub": "circle", "cx": 1000.0 / (hw + 0.5), "cy": 1000.0 / (hh + 0.25), "radius": {"num": "1000.0", "as": "float"},
                   "enum": tag + [2]}
            # 3. kilometre string, binary-exact cells
            yield {"sub": "circle", "cx": 64.0 / (hw + 0.75) if hw else 128.0, "cy": 64.0 / (hh + 0.5) if hh else 100.0,
                   "radius": {"num": "0.064", "ws": " ", "unit": "km", "as": "str"}, "enum": tag + [3]}
            # 4. feet string (factor 0.3048), cells in metres
            yield {"sub": "circle", "cx": 30.48 / (hw + 0.4), "cy": 30.48 / (hh + 0.6),
                   "radius": {"num": "100", "ws": "", "unit": "ft", "as": "str"}, "enum": tag + [4]}
            # 5. unit cells in x, cell of 0.5 in y where possible: radius = hw + 0.5 (non-multiple in x) gives half_h = 2*hw + 1
            if hh == 2 * hw + 1 or hw == hh:
                yield {"sub": "circle", "cx": 1.0, "cy": 1.0 if hw == hh else 0.5, "radius": {"num": "%d.5" % hw, "as": "float"},
                       "enum": tag + [5]}


ANN_CELLS = [(1.0, 1.0), (1.0, 2.0), (2.0, 1.0), (0.5, 1.0), (3.0, 2.0), (1.0, 0.5)]


def annulus_enum(block, nblocks, kmax=24):
    idx = 0
    for (cx, cy) in ANN_CELLS:
        for ko in range(1, kmax + 1):
            for ki in range(1, ko + 1):
                idx += 1
                if idx % nblocks != block:
                    continue
                how = "int" if (ko % 2 == 0 and ki % 2 == 0) else "float"
                o = {"num": str(ko // 2) if how == "int" else repr(ko / 2.0), "as": how}
                i = {"num": str(ki // 2) if how == "int" else repr(ki / 2.0), "as": how}
                yield {"sub": "annulus", "cx": cx, "cy": cy, "outer": o, "inner": i, "enum": [cx, cy, ko, ki]}
    if block == 0:
        for (cx, cy) in ANN_CELLS:
            for ko, ki in [(2, 4), (2, 3), (6, 7), (6, 24), (1, 2)]:
                yield {"sub": "annulus", "cx": cx, "cy": cy, "outer": {"num": repr(ko / 2.0), "as": "float"},
                       "inner": {"num": repr(ki / 2.0), "as": "float"}, "enum": [cx, cy, ko, ki]}


# ------------------------------------------------------------------------------------------------ strategies: strings

NUMS_ENUM = ["1", "10", "3.5", ".5", "0.25", "007", "2.50", "1609.344", "12345.678", "0.001"]


def _case_variants(u):
    out = [u, u.upper(), u.title()]
    if len(u) > 1:
        out.append(u[0] + u[1:].upper())
    return list(dict.fromkeys(out))


def string_enum():
    for num in NUMS_ENUM:
        yield {"sub": "dist_str", "s": num, "expect": "valid", "cls": "number_only", "num": num, "unit": ""}
        for u in UNIT_KEYS:
            for uv in _case_variants(u):
                for ws in ["", " ", "   "]:
                    for tr in ["", " "]:
                        yield {"sub": "dist_str", "s": num + ws + uv + tr, "expect": "valid", "cls": "number_unit", "num": num, "unit": uv}
    neg = {
        "nonpositive": ["0", "0.0", "00", ".0", "-3", "-0.5", "-.5", "-0", "0m", "0 km", "-3 ft", "-1.5miles", "0.000 meters", "-10"],
        "unknown_unit": [n + w + u for n in ["10", "2.5"] for w in ["", " "] for u in UNKNOWN_UNITS],
        "empty": ["", " ", "   "],
        "two_numbers": ["5 5", "5m5", "5 5m", "3-4", "1,5m", "1.5.2", "5 m 3", "10km 2", "1 2 3", "5m 5m", "3..4"],
        "no_number": ["abc", "km", "m", "meters", "ft", "miles", "ten", "-", ".", "-.", "..", "m m"],
        "unit_first": ["km5", "m 5", "ft10", "miles 3.5", "km 1 km"],
    }
    for cls, items in neg.items():
        for s in items:
            yield {"sub": "dist_str", "s": s, "expect": "invalid", "cls": cls}
    len_ = [("exponent", "1e3", "1e3", ""), ("exponent", "1E3m", "1E3", "m"), ("exponent", "2.5e-1 km", "2.5e-1", "km"),
            ("exponent", "1e+2ft", "1e+2", "ft"), ("exponent", "5e0", "5e0", ""), ("exponent", "1e-05", "1e-05", ""),
            ("plus_sign", "+3m", "3", "m"), ("plus_sign", "+3", "3", ""), ("plus_sign", "+2.5 km", "2.5", "km"),
            ("trailing_dot", "5.", "5", ""), ("trailing_dot", "5.m", "5", "m"), ("trailing_dot", "5. km", "5", "km"),
            ("leading_blank", " 7m", "7", "m"), ("leading_blank", "  7", "7", ""), ("leading_blank", " 2.5 km", "2.5", "km"),
            ("number_blank", "7 ", "7", ""), ("number_blank", "2.5  ", "2.5", ""),
            ("tab", "7\tm", "7", "m"), ("tab", "7m\t", "7", "m"), ("newline", "7m\n", "7", "m"), ("underscore", "1_000", "1000", ""),
            ("unicode_digit", "٣m", "3", "m")]
    for cls, s, num, unit in len_:
        yield {"sub": "dist_str", "s": s, "expect": "lenient", "cls": cls, "num": num, "unit": unit}
    for s in ["nan", "NaN", "inf", "Infinity", "-inf", "nan m", "inf km", "infinity"]:
        yield {"sub": "dist_str", "s": s, "expect": "nonfinite", "cls": "nonfinite"}
    yield {"sub": "dist_str", "s": "5e-05", "expect": "observe_numeric", "cls": "numeric_radius_exponent_repr", "cell": 1e-05, "value": 5e-05}
    yield {"sub": "dist_str", "s": "3e+16", "expect": "observe_numeric", "cls": "numeric_radius_exponent_repr", "cell": 1e15, "value": 3e16}
    for u in VARIANT_SPELLINGS:
        yield {"sub": "dist_str", "s": "5 " + u, "expect": "observe", "cls": "spelling:" + u.replace(" ", "_"), "num": "5", "unit": u}


@st.composite
def string_cases(draw):
    kind = draw(st.sampled_from(["valid", "valid", "valid", "nonpositive", "unknown_unit", "two_numbers", "no_number", "unit_first",
                                 "exponent", "lenient_misc"]))
    num = draw(num_text(0, 99999))
    if Fraction(Decimal(num)) <= 0:
        num = "1" + num
    ws = draw(st.sampled_from(["", "", " ", "  ", "     "]))
    if kind == "valid":
        if draw(st.integers(0, 4)) == 0:
            return {"sub": "dist_str", "s": num, "expect": "valid", "cls": "number_only", "num": num, "unit": ""}
        u = draw(unit_text())
        tr = draw(st.sampled_from(["", "", " ", "  "]))
        return {"sub": "dist_str", "s": num + ws + u + tr, "expect": "valid", "cls": "number_unit", "num": num, "unit": u}
    u = draw(st.one_of(st.just(""), unit_text()))
    if kind == "nonpositive":
        z = draw(st.sampled_from(["0", "0.0", "00.000", ".0", "-" + num, "-0", "-0.0"]))
        return {"sub": "dist_str", "s": z + ws + u, "expect": "invalid", "cls": "nonpositive"}
    if kind == "unknown_unit":
        bad = draw(st.one_of(st.sampled_from(UNKNOWN_UNITS),
                             st.text(alphabet="abcdghjnopqruvwxyz", min_size=1, max_size=6)))
        if bad.lower().replace(" ", "") in FACT or bad.lower() in VARIANT_SPELLINGS or bad.lower() in ("inf", "nan", "e"):
            bad = "q" + bad
        return {"sub": "dist_str", "s": num + ws + bad, "expect": "invalid", "cls": "unknown_unit"}
    if kind == "two_numbers":
        num2 = draw(num_text(0, 999))
        sep = draw(st.sampled_from([" ", "  ", ",", "-", "m", " km ", "/", ":", "x"]))
        return {"sub": "dist_str", "s": num + sep + num2 + u, "expect": "invalid", "cls": "two_numbers"}
    if kind == "no_number":
        w = draw(st.one_of(unit_text(), st.sampled_from(UNKNOWN_UNITS), st.text(alphabet="abcdfghjklmopqrstuvwxyz ", min_size=0, max_size=8)))
        if w.strip().lower() in ("inf", "nan", "infinity"):
            w = "q" + w
        return {"sub": "dist_str", "s": w, "expect": "invalid", "cls": "no_number"}
    if kind == "unit_first":
        u2 = draw(unit_text())
        return {"sub": "dist_str", "s": u2 + ws + num, "expect": "invalid", "cls": "unit_first"}
    if kind == "exponent":
        mant = draw(st.sampled_from(["1", "2.5", "7", "1.25", "9.99"]))
        ex = draw(st.sampled_from(["e0", "e1", "E2", "e+3", "e-1", "e-05", "E+01"]))
        return {"sub": "dist_str", "s": mant + ex + ws + u, "expect": "lenient", "cls": "exponent", "num": mant + ex, "unit": u}
    form = draw(st.sampled_from(["plus_sign", "trailing_dot", "leading_blank", "tab"]))
    ip = str(draw(st.integers(1, 999)))
    if form == "plus_sign":
        return {"sub": "dist_str", "s": "+" + num + ws + u, "expect": "lenient", "cls": form, "num": num, "unit": u}
    if form == "trailing_dot":
        return {"sub": "dist_str", "s": ip + "." + ws + u, "expect": "lenient", "cls": form, "num": ip, "unit": u}
    if form == "leading_blank":
        return {"sub": "dist_str", "s": draw(st.sampled_from([" ", "  "])) + num + ws + u, "expect": "lenient", "cls": form, "num": num, "unit": u}
    return {"sub": "dist_str", "s": num + "\t" + u, "expect": "lenient", "cls": form, "num": num, "unit": u}


# ------------------------------------------------------------------------------------------------ strategies: cellsize

@st.composite
def cellsize_cases(draw):
    h = draw(st.integers(2, 7))
    w = draw(st.integers(2, 7))
    steps = [1.0, 0.5, 2.0, 0.1, 0.3, 2.5, 30.0, 0.00025, 1000.0]
    case = {"sub": "cellsize", "h": h, "w": w,
            "y0": draw(st.sampled_from([0.0, 10.7, -3.3, 1e6])), "x0": draw(st.sampled_from([0.0, 10.7, -3.3, 1e6])),
            "ystep": draw(st.sampled_from(steps)), "xstep": draw(st.sampled_from(steps)),
            "ydesc": draw(st.booleans()), "xdesc": draw(st.sampled_from([False, False, True])),
            "dims": draw(st.sampled_from([["y", "x"], ["y", "x"], ["lat", "lon"], ["row", "col"]])),
            "unit": draw(st.sampled_from([None] + UNIT_KEYS))}
    rk = draw(st.sampled_from([None, None, "scalar", "tuple", "list", "ndarray"]))
    if rk is not None:
        num = st.one_of(st.sampled_from([1, 2, 30, 0.5, 0.25, 0.1, 2.5, 1000, 0.00025, 12.3456789]),
                        st.floats(1e-4, 1e5, allow_nan=False))
        if rk == "scalar":
            case["res"] = draw(num)
        else:
            rx, ry = draw(num), draw(num)
            if rk == "ndarray":
                rx, ry = float(rx), float(ry)
            if draw(st.integers(0, 3)) == 0:
                ry = -ry
            case["res"] = [rx, ry]
        case["res_kind"] = rk
        if draw(st.booleans()):          # with a res attr even a single row / column is in the domain
            case["h" if draw(st.booleans()) else "w"] = 1
    return case


# ------------------------------------------------------------------------------------------------ shards

def shards(tier):
    th = tier == "thorough"
    out = []
    qmax = 150 if th else 60

    def hyp(name, body, strat, n):
        out.append((name, lambda ctx: drive_hypothesis(ctx, body, strat, n)))

    def enum(name, body, gen, space):
        def run(ctx):
            cases = list(gen())
            drive_enum(ctx, body, cases, space=space, size=len(cases))
        out.append((name, run))

    for i in range(4 if th else 2):
        hyp("plane_rand#%d" % i, body_plane, plane_cases(), 50000 if th else 3000)
    for i in range(6 if th else 3):
        hyp("sphere_rand#%d" % i, body_sphere, sphere_cases(), 40000 if th else 2500)
    enum("invalid_enum", body_sphere_invalid, invalid_enum, "out-of-range lon/lat: argument position x value x sign x base point")
    hyp("invalid_rand#0", body_sphere_invalid, invalid_cases(), 20000 if th else 2000)
    enum("circle_enum", body_circle, lambda: circle_enum(20 if th else 12),
         "circle_kernel half-widths (half_w, half_h) <= %d x realisations" % (20 if th else 12))
    for i in range(4 if th else 3):
        hyp("circle_rand#%d" % i, body_circle, circle_cases(qmax), 30000 if th else 2000)
    nb = 2
    for b in range(nb):
        enum("annulus_enum#%d" % b, body_annulus, lambda b=b: annulus_enum(b, nb, 48 if th else 24),
             "annulus outer/inner radii k/2 <= %d on 6 cell shapes, block %d/%d" % (24 if th else 12, b, nb))
    for i in range(4 if th else 2):
        hyp("annulus_rand#%d" % i, body_annulus, annulus_cases(qmax), 20000 if th else 1500)
    enum("string_enum", body_dist_str, string_enum, "distance strings: numbers x unit spellings x case x blanks; negative and lenient tables")
    for i in range(2 if th else 1):
        hyp("string_rand#%d" % i, body_dist_str, string_cases(), 60000 if th else 4000)
    for i in range(2 if th else 1):
        hyp("cellsize_rand#%d" % i, body_cellsize, cellsize_cases(), 12000 if th else 1200)
    return out


LEVEL_TEXT = ("Randomised (Hypothesis) plus bounded-exhaustive search. Metric axioms (symmetry, exact zero, positivity, triangle inequality with a "
              "stated rounding bound, half-circumference bound) over thousands of plane and sphere point tuples with forced pole / antimeridian / "
              "antipode / coincident / collinear classes; ValueError for every out-of-range argument position (enumerated); circle_kernel decided "
              "for every (half_w, half_h) <= 12 (thorough 20) in several radius/cell-size realisations and annulus_kernel for every outer/inner "
              "radius pair k/2 <= 12 on six cell shapes against an exact-integer ellipse oracle, plus random cell sizes, radii and unit strings; "
              "distance-string grammar with must-convert, must-reject and convert-or-reject classes; calc_cellsize against res x unit factor.")
LEVEL_NOTE = ("Half-widths follow the documented truncation int(radius/cellsize); quotients within 4 eps of an integer whose double evaluation is "
              "inexact accept either neighbour (counted as ambiguous). Great-circle triangle slack grows to 0.55 m at the antipode (haversine "
              "conditioning). Numeric radii whose str() uses exponent notation and alternative unit spellings are outside the asserted domain "
              "(observed only). Outside the enumerated spaces the property is sampled, not proven.")
TECHNIQUE = "property-based testing (Hypothesis) + exhaustive half-width / radius-pair / argument-position enumeration against exact-rational and integer oracles"
