"""Shared Hypothesis strategies.  Everything drawn is JSON-able (see core.enc_*)."""
import itertools

import numpy as np
from hypothesis import strategies as st

from .core import dec_arr, dec_list, enc_list

INT_DTYPES = ["int8", "int16", "int32", "int64", "uint8", "uint16", "uint32", "uint64"]
FLOAT_DTYPES = ["float32", "float64"]
ALL_DTYPES = INT_DTYPES + FLOAT_DTYPES

# value palettes (all bounded; "exact" palettes are exactly representable in float32)
PAL_SMALLINT = [0, 1, 2, 3, 4, 5, 7, 9]
PAL_SIGNED = [-3, -2, -1, 0, 1, 2, 3, 5]
PAL_HALVES = [-2.5, -1.0, -0.5, 0.0, 0.25, 0.5, 1.5, 2.0, 3.75, 8.0]
PAL_NONF32 = [0.1, 0.2, 0.3, 0.7, 1.1, 2.3, 1000000.123, 3.3333333333, -0.1, 12345.6789]
PAL_BIGINT = [0, 1, 100, 255, 1000, 65535, 100000]


def shapes(min_side=1, max_side=8):
    side = st.integers(min_side, max_side)
    return st.tuples(side, side)


@st.composite
def grid(draw, h, w, values, specials=(), special_weight=0.15):
    """h x w nested list drawn from `values`, with `specials` (e.g. 'nan') at a drawn density."""
    n = h * w
    if specials and draw(st.booleans()):
        # density classes: a single cell, ~10-15%, ~50%
        mode = draw(st.sampled_from(["one", "some", "half"]))
        base = st.sampled_from(list(values))
        spec = st.sampled_from(list(specials))
        if mode == "one":
            flat = draw(st.lists(base, min_size=n, max_size=n))
            k = draw(st.integers(0, n - 1))
            flat[k] = draw(spec)
        else:
            wgt = 1 if mode == "some" else 5
            elem = st.one_of(*([base] * (6 if mode == "some" else 5) + [spec] * wgt))
            flat = draw(st.lists(elem, min_size=n, max_size=n))
    else:
        flat = draw(st.lists(st.sampled_from(list(values)), min_size=n, max_size=n))
    return [flat[i * w:(i + 1) * w] for i in range(h)]


@st.composite
def float_values(draw, kind=None):
    kind = kind or draw(st.sampled_from(["smallint", "signed", "halves", "nonf32", "free"]))
    if kind == "smallint":
        return kind, PAL_SMALLINT
    if kind == "signed":
        return kind, PAL_SIGNED
    if kind == "halves":
        return kind, PAL_HALVES
    if kind == "nonf32":
        return kind, PAL_NONF32
    vals = draw(st.lists(st.floats(-1e4, 1e4, allow_nan=False, allow_infinity=False, width=64), min_size=3, max_size=10))
    return kind, vals


def compositions(n):
    """Every composition (ordered chunking) of n as tuples."""
    for cuts in itertools.product([0, 1], repeat=n - 1):
        parts, cur = [], 1
        for c in cuts:
            if c:
                parts.append(cur)
                cur = 1
            else:
                cur += 1
        parts.append(cur)
        yield tuple(parts)


@st.composite
def chunking(draw, n):
    """A composition of n: each of the n-1 cut positions drawn independently,
    with forced classes (single chunk, all ones)."""
    mode = draw(st.sampled_from(["rand", "rand", "rand", "ones", "single", "first1", "last1"]))
    if n == 1 or mode == "single":
        return [n]
    if mode == "ones":
        return [1] * n
    if mode == "first1":
        return [1, n - 1]
    if mode == "last1":
        return [n - 1, 1]
    cuts = draw(st.lists(st.booleans(), min_size=n - 1, max_size=n - 1))
    parts, cur = [], 1
    for c in cuts:
        if c:
            parts.append(cur)
            cur = 1
        else:
            cur += 1
    parts.append(cur)
    return parts


@st.composite
def axis_coords(draw, n, steps=(1, 0.5, 2, 0.1, 0.3, 2.5, 30), offsets=(0, 10.7, -3.3, 100), descending=True):
    step = draw(st.sampled_from(list(steps)))
    off = draw(st.sampled_from(list(offsets)))
    desc = draw(st.booleans()) if descending else False
    return {"start": off, "step": step, "desc": desc, "n": n}


def mk_axis(spec):
    a = spec["start"] + spec["step"] * np.arange(spec["n"], dtype="float64")
    if spec.get("decimals") is not None:
        a = np.round(a, spec["decimals"])   # rounded cell centres: labels may repeat
    return a[::-1].copy() if spec.get("desc") else a


def mk_da(spec, dims=("y", "x"), ycoord=None, xcoord=None, attrs=None, name=None, layout="C", backend="numpy", chunks=None):
    """Build a DataArray from a JSON array spec."""
    import xarray as xr
    a = dec_arr(spec)
    a = apply_layout(a, layout)
    if backend == "dask":
        import dask.array as da
        a = da.from_array(a, chunks=chunks if chunks is not None else a.shape)
    h, w = a.shape[-2], a.shape[-1]
    coords = {}
    if ycoord != "none":     # "none": a dimension without a coordinate variable
        coords[dims[-2]] = mk_axis(ycoord) if ycoord else np.arange(h, dtype="float64")
    if xcoord != "none":
        coords[dims[-1]] = mk_axis(xcoord) if xcoord else np.arange(w, dtype="float64")
    return xr.DataArray(a, dims=dims, coords=coords, attrs=dict(attrs or {}), name=name)


def apply_layout(a, layout):
    if layout == "C":
        return np.ascontiguousarray(a)
    if layout == "F":
        return np.asfortranarray(a)
    if layout == "view":
        big = np.zeros(tuple(2 * s for s in a.shape), dtype=a.dtype)
        v = big[tuple(slice(None, None, 2) for _ in a.shape)]
        v[...] = a
        return v
    if layout == "ro":
        b = np.ascontiguousarray(a).copy()
        b.setflags(write=False)
        return b
    raise ValueError(layout)


def id_list(present, extra=(), dtype=None):
    """Subsets / permutations of ids incl. absent ones.  With ``dtype`` (the raster's dtype) an extra id is kept only
    if it stays distinct from every other id once rounded to that dtype: ids are compared with the raster in the
    raster's precision, so 7.0000001 against a float32 raster IS the id 7.0 listed twice (duplicate ids are outside
    the documented domain)."""
    pool = list(present)
    for e in extra:
        if dtype is not None and np.dtype(dtype).kind == "f":
            key = lambda v: float(np.dtype(dtype).type(v))
        else:
            key = float
        if all(key(e) != key(q) for q in pool):
            pool.append(e)
    return st.lists(st.sampled_from(pool), min_size=1, max_size=max(1, len(pool)), unique=True)
