"""Reference model for C08: slope / aspect / curvature / hillshade as functions of the 3x3 window.

Written from the documents the docstrings cite, in compass notation (row 0 is north, column 0 is west),
vectorised in float64 on the float32-cast elevations.  Shares no code and no lettering with xrspatial.

  slope      ArcGIS "How slope works" (Horn):  dz/dE = ((NE+2E+SE)-(NW+2W+SW)) / (8*cell_x)
                                               dz/dS = ((SW+2S+SE)-(NW+2N+NE)) / (8*cell_y)
                                               slope = atan(hypot(dz/dE, dz/dS)) in degrees
  aspect     ArcGIS "How aspect works": compass bearing (clockwise from north, 0..360) of the steepest DESCENT
             computed from the same two sums without any cell size; -1 where both sums are zero.
             descent vector (east, north) = (-dz/dE, +dz/dS)  =>  bearing = atan2(-dz/dE, dz/dS) mod 360
  curvature  ArcGIS "How curvature works":  -2(D+E)*100 with D=((W+E)/2-C)/L^2, E=((N+S)/2-C)/L^2
             = -100 * ((N+S-2C)+(E+W-2C)) / L^2 ;  L = (cell_x+cell_y)/2  (DESIGN.md section 3 rule 1)
  hillshade  GeoExamples shaded relief (np.gradient, unit spacing, no cell size), rewritten as Lambert shading:
             gS=(S-N)/2, gE=(E-W)/2, surface normal (-gE, +gS, 1) in (east, north, up), light from compass azimuth az at
             altitude alt:  shaded = (sin(alt) + cos(alt)*(cos(az)*gS - sin(az)*gE)) / sqrt(1+gS^2+gE^2);  result (shaded+1)/2

Every function returns full-size arrays (NaN on the one-cell border) plus a per-cell tolerance that is a stated
forward bound for "float64 arithmetic on float32 inputs, result stored as float32" (DESIGN.md Appendix C).
"""
import numpy as np

EPS32 = 2.0 ** -23
EPS64 = 2.0 ** -52


class Z(np.ndarray):
    """float64 array of float32-rounded elevations that remembers how far each cell was moved by that rounding (`dz`).  The statement does
    not say in which precision the formulas are evaluated: an implementation working on the float32-rounded elevations (today's) and one
    working on the elevations as given (float64 / int64) are both right, and they differ by at most what `dz` propagates to."""
    dz = None

    def __array_finalize__(self, obj):
        self.dz = None   # derived arrays (slices, sums) carry no rounding record; _nbdz reads it from the array cast32 returned


def cast32(a):
    """The elevations as the library sees them: cast to float32 (documented single precision), held in float64."""
    with np.errstate(all="ignore"):
        raw = np.asarray(a)
        z = raw.astype(np.float32).astype(np.float64).view(Z)
        d = np.abs(raw.astype(np.float64) - np.asarray(z))
        z.dz = np.where(np.isfinite(d), d, 0.0)
        return z


def _nbdz(z):
    """Neighbour dictionary of the input-rounding record (zeros when there is none)."""
    dz = getattr(z, "dz", None)
    if dz is None:
        dz = np.zeros(np.shape(z))
    return _nb(dz)


def _nb(z):
    return dict(NW=z[:-2, :-2], N=z[:-2, 1:-1], NE=z[:-2, 2:],
                W=z[1:-1, :-2], C=z[1:-1, 1:-1], E=z[1:-1, 2:],
                SW=z[2:, :-2], S=z[2:, 1:-1], SE=z[2:, 2:])


def _full(shape, inner):
    out = np.full(shape, np.nan)
    if shape[0] >= 3 and shape[1] >= 3:
        out[1:-1, 1:-1] = inner
    return out


def sums_exact(z):
    """True when every 3x3 weighted sum of these float32 values is exact in float64: all values are multiples of a
    common quantum q and 16*max|v|/q < 2**52."""
    v = np.abs(z[np.isfinite(z) & (z != 0)])
    if v.size == 0:
        return True
    q = 2.0 ** (np.floor(np.log2(v.min())) - 23)
    return 16.0 * v.max() / q < 2.0 ** 52


def horn(z):
    """Numerators of Horn's differences: (east minus west, south minus north), their float64 rounding bounds."""
    n = _nb(z)
    with np.errstate(all="ignore"):
        ew = (n["NE"] + 2 * n["E"] + n["SE"]) - (n["NW"] + 2 * n["W"] + n["SW"])
        sn = (n["SW"] + 2 * n["S"] + n["SE"]) - (n["NW"] + 2 * n["N"] + n["NE"])
        if sums_exact(z):
            dew = np.zeros_like(ew)
            dsn = np.zeros_like(sn)
        else:
            a = {k: np.abs(v) for k, v in n.items()}
            dew = 16 * EPS64 * (a["NE"] + 2 * a["E"] + a["SE"] + a["NW"] + 2 * a["W"] + a["SW"])
            dsn = 16 * EPS64 * (a["SW"] + 2 * a["S"] + a["SE"] + a["NW"] + 2 * a["N"] + a["NE"])
        d = _nbdz(z)   # elevations as given vs rounded to float32 (zero for float32-exact rasters)
        dew = dew + (d["NE"] + 2 * d["E"] + d["SE"] + d["NW"] + 2 * d["W"] + d["SW"])
        dsn = dsn + (d["SW"] + 2 * d["S"] + d["SE"] + d["NW"] + 2 * d["N"] + d["NE"])
    return ew, sn, dew, dsn


def slope(z, cx, cy):
    ew, sn, dew, dsn = horn(z)
    with np.errstate(all="ignore"):
        gx = ew / (8.0 * cx)
        gy = sn / (8.0 * cy)
        ref = np.degrees(np.arctan(np.hypot(gx, gy)))
        # float32 store (half ulp) + the 57.29578 constant (8.5e-10 rel) + cell size from coordinates (1e-9 rel): 2 ulp32
        tol = 4 * EPS32 * np.abs(ref) + np.degrees(np.hypot(dew / (8.0 * cx), dsn / (8.0 * cy)))
    return _full(z.shape, ref), _full(z.shape, tol)


def aspect(z):
    """Returns ref (degrees, -1 flat, NaN), tol, ambiguous mask (zero-gradient decision inside float64 rounding)."""
    ew, sn, dew, dsn = horn(z)
    with np.errstate(all="ignore"):
        bearing = np.degrees(np.arctan2(-ew, sn)) % 360.0
        flat = (ew == 0) & (sn == 0)
        ref = np.where(flat, -1.0, bearing)
        ref = np.where(np.isnan(ew) | np.isnan(sn), np.nan, ref)
        h = np.hypot(ew, sn)
        fwd = np.where(h > 0, np.degrees(np.hypot(dew, dsn) / np.where(h > 0, h, 1.0)), 0.0)
        tol = 4 * EPS32 * np.maximum(np.abs(ref), 1.0) + fwd
        amb = (np.abs(ew) <= dew) & (np.abs(sn) <= dsn) & ((dew > 0) | (dsn > 0))
        amb |= fwd > 1.0
    return _full(z.shape, ref), _full(z.shape, tol), _full(z.shape, amb) == 1


def _pair_round(a, b):
    """Bound on the float32 rounding of a+b (0 when the sum is a float32 number)."""
    with np.errstate(all="ignore"):
        s = a + b
        exact = s.astype(np.float32).astype(np.float64) == s
        return np.where(exact, 0.0, 0.5 * EPS32 * np.abs(s))


def curvature(z, cx, cy):
    n = _nb(z)
    L = (cx + cy) / 2.0
    with np.errstate(all="ignore"):
        ref = -100.0 * ((n["N"] + n["S"] - 2 * n["C"]) + (n["E"] + n["W"] - 2 * n["C"])) / (L * L)
        # single precision: each opposite-neighbour sum may be rounded to float32 once (x2 margin), result stored as float32
        fwd = 2 * 100.0 / (L * L) * (_pair_round(n["N"], n["S"]) + _pair_round(n["E"], n["W"]))
        d = _nbdz(z)   # evaluation on the elevations as given instead of their float32 roundings
        fwd = fwd + 100.0 / (L * L) * (d["N"] + d["S"] + d["E"] + d["W"] + 4 * d["C"]) * (1 + 1e-6) \
            + np.where((d["N"] + d["S"] + d["E"] + d["W"] + d["C"]) > 0, 64 * EPS64 * 100.0 / (L * L) * (
                np.abs(n["N"]) + np.abs(n["S"]) + np.abs(n["E"]) + np.abs(n["W"]) + 4 * np.abs(n["C"])), 0.0)
        tol = 4 * EPS32 * np.abs(ref) + fwd
    return _full(z.shape, ref), _full(z.shape, tol)


HILLSHADE_ATOL = 1e-5   # every step of the shading formula is float32: ~20 operations on quantities <= 2*pi, each <= 1 ulp32
                        # absolute (1.2e-7 .. 5e-7) => < 5e-6 on the [0,1] result; measured max 3.0e-7 over 1.1e5 cells


def hillshade(z, azimuth, altitude):
    n = _nb(z)
    az = np.radians(float(azimuth))
    alt = np.radians(float(altitude))
    with np.errstate(all="ignore"):
        gs = (n["S"] - n["N"]) / 2.0
        ge = (n["E"] - n["W"]) / 2.0
        shaded = (np.sin(alt) + np.cos(alt) * (np.cos(az) * gs - np.sin(az) * ge)) / np.sqrt(1.0 + gs * gs + ge * ge)
        ref = (shaded + 1.0) / 2.0
        d = _nbdz(z)   # |d ref / d gradient| <= 1 per unit of gs, ge
    return _full(z.shape, ref), _full(z.shape, np.full(ref.shape, HILLSHADE_ATOL) + (d["S"] + d["N"]) / 2.0 + (d["E"] + d["W"]) / 2.0)


def flat_windows(z):
    """Mask (full size) of interior cells whose nine window cells are finite and all equal."""
    n = _nb(z)
    c = n["C"]
    m = np.isfinite(c)
    for k, v in n.items():
        m = m & (v == c)
    return _full(z.shape, m) == 1


def clean_nonflat(z):
    """Interior cells whose window is NaN-free and not flat (the non-triviality rule)."""
    n = _nb(z)
    fin = np.ones(n["C"].shape, bool)
    same = np.ones(n["C"].shape, bool)
    for k, v in n.items():
        fin &= np.isfinite(v)
        same &= (v == n["C"])
    return _full(z.shape, fin & ~same) == 1
