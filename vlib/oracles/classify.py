"""Reference models for C12 (classifiers).  Shares no code with xrspatial.classify.

* first_bin            reclassify rule: index of the first bin whose upper bound is >= v (NaN above the last)
* exact_percentiles    linear-interpolation percentiles 100*j/k in exact rationals, each with a rounding tolerance
* quantile_interval    [lo, hi] label interval of a value (DESIGN section 5 C12 / section 11)
* jenks_opt            minimum within-class sum of squared deviations (float64 dynamic programme, stable segment costs)
* jenks_brute          the same by brute force over all cut positions (cross-check for n < 14)
* partition_ssd        within-class sum of squared deviations of a labelled partition
"""
import itertools
import math
from fractions import Fraction as Fr

import numpy as np

EPS64 = 2.0 ** -52
EPS32 = 2.0 ** -23


# ------------------------------------------------------------------ reclassify

def first_bin(vals64, bins64):
    """vals64: float64 array of finite values, bins64: ascending float64 array (may end in +inf).
    Returns int array: min{i : bins[i] >= v}, or -1 if v is above the last bin.
    (searchsorted 'left' = number of bins strictly below v = first index whose bin is >= v.)"""
    idx = np.searchsorted(bins64, vals64, side="left")
    idx = np.where(idx >= len(bins64), -1, idx)
    return idx


def first_bin_py(v, bins):
    """Same rule, one value, exact Python comparisons (ints / floats / Fractions)."""
    for i, b in enumerate(bins):
        if b >= v:
            return i
    return -1


# ------------------------------------------------------------------ quantile

def pvec_class(k):
    """Classify the float percentile vector arange(w, 100+w, w), w = 100.0/k (the documented 'k percentile bands'
    are 100*j/k, j=1..k).  Used ONLY to steer generators / name buckets, never as an oracle.
      'ok'      k entries ending at >= 100 (clamped to 100), or k+1 entries whose k-th is exactly 100
      'last<100'  k entries, last one below 100: the 100th percentile (the maximum) is not among the breaks
      'k+1'     k+1 entries, k-th below 100: k+1 breaks for k class values
    """
    w = 100.0 / k
    p = np.arange(w, 100 + w, w)
    if len(p) == k:
        return "ok" if p[-1] >= 100.0 else "last<100"
    if len(p) == k + 1:
        return "ok" if p[k - 1] == 100.0 else "k+1"
    return "len=%d" % len(p)


def exact_percentiles(fin_sorted, k, f32_input=False):
    """fin_sorted: ascending list of Fractions (finite cell values, with multiplicity), n >= 1.
    Returns list of (q_j, tol_j) for j = 1..k: q_j the exact linear-interpolation percentile 100*j/k
    (position j*(n-1)/k between order statistics), tol_j a bound on how far a float64 evaluation
    (numpy.percentile: position (n-1)*(p/100), lerp) can land from q_j:
        4 ulp of the operands + 8*eps64*n*gap  [position rounding times the local slope]
        (+ 2*eps32*gap when the data are float32: numpy forms b-a in the array's own precision).
    tol_j = 0 when the position is an integer in exact arithmetic AND in float arithmetic (the break then is
    an order statistic copied without arithmetic), and for j = k (percentile 100 = the maximum)."""
    n = len(fin_sorted)
    out = []
    w = 100.0 / k
    pv = np.arange(w, 100 + w, w)       # float percentile positions (only used to decide whether a position is exact)
    for j in range(1, k + 1):
        pos = Fr(j, k) * (n - 1)
        lo = pos.numerator // pos.denominator
        fr = pos - lo
        a = fin_sorted[lo]
        if fr == 0:
            q = a
            pj = min(float(pv[j - 1]), 100.0) if j < k and j - 1 < len(pv) else 100.0
            vi1 = (n - 1) * (pj / 100.0)
            vi2 = pj * (n - 1) / 100.0
            if j == k or (vi1 == lo and vi2 == lo):
                out.append((q, Fr(0)))
                continue
            gap = max(fin_sorted[min(lo + 1, n - 1)] - a, a - fin_sorted[max(lo - 1, 0)])
            mx = max(abs(fin_sorted[min(lo + 1, n - 1)]), abs(fin_sorted[max(lo - 1, 0)]), abs(a))
        else:
            b = fin_sorted[lo + 1]
            q = a + (b - a) * fr
            gap = b - a
            mx = max(abs(a), abs(b))
        if gap == 0:
            out.append((q, Fr(0)))      # both neighbours equal: a + 0*t is exact whatever the position rounding
            continue
        tol = 4 * Fr(float(np.spacing(float(mx) if mx else 1e-300))) + Fr(8 * EPS64) * n * gap
        if f32_input:
            tol += Fr(2 * EPS32) * gap
        out.append((q, tol))
    return out


def quantile_interval(v, brk):
    """v: Fraction, brk: list of (q_j, tol_j).  Returns (lo, hi, ambiguous):
    hi = number of breaks (with multiplicity) below v or within tolerance of v  - tied percentiles need not merge;
    lo = number of distinct breaks definitely below v, breaks closer than their tolerances counted once
         - tied percentiles may merge."""
    hi = 0
    below = []
    amb = False
    for q, tol in brk:
        if q < v:
            hi += 1
            if v - q > tol:
                below.append((q, tol))
            else:
                amb = True
        elif q - v <= tol and q != v:
            hi += 1
            amb = True
        elif q == v and tol > 0:
            hi += 1
            amb = True
    below.sort()
    lo = 0
    prev = None
    for q, tol in below:
        if prev is None or q - prev[0] > tol + prev[1]:
            lo += 1
        prev = (q, tol)
    return lo, hi, amb


# ------------------------------------------------------------------ Jenks

def _segment_costs(v):
    """cost[i, j] = sum of squared deviations of v[i..j] (inclusive) from their mean, v ascending float64.
    Each row is computed on values shifted by v[i] (non-negative, at most the segment range), so the
    cancellation in c2 - c1^2/m is relative to m*range^2 while the cost is >= range^2/2: relative error
    O(m*eps), independent of the magnitude of the data."""
    n = len(v)
    cost = np.zeros((n, n))
    for i in range(n):
        x = v[i:] - v[i]
        c1 = np.cumsum(x)
        c2 = np.cumsum(x * x)
        m = np.arange(1, n - i + 1, dtype="float64")
        cost[i, i:] = np.maximum(c2 - c1 * c1 / m, 0.0)
    return cost


def jenks_opt(values, k, cost=None):
    """Minimum over partitions of the sorted values into at most k contiguous classes of the total
    within-class sum of squared deviations.  Plain O(k n^2) dynamic programme."""
    v = np.sort(np.asarray(values, dtype="float64"))
    n = len(v)
    if cost is None:
        cost = _segment_costs(v)
    kk = min(k, n)
    best = cost[0, :].copy()            # one class covering v[0..j]
    for _c in range(2, kk + 1):
        new = best.copy()               # "at most" c classes
        for j in range(1, n):
            # last class is v[i..j], i = 1..j
            cand = best[:j] + cost[1:j + 1, j]
            m = cand.min()
            if m < new[j]:
                new[j] = m
        best = new
    return float(best[n - 1])


def jenks_brute(values, k, cost=None):
    v = np.sort(np.asarray(values, dtype="float64"))
    n = len(v)
    if cost is None:
        cost = _segment_costs(v)
    kk = min(k, n)
    best = math.inf
    for cuts in itertools.combinations(range(1, n), kk - 1):
        idx = (0,) + cuts + (n,)
        s = 0.0
        for a, b in zip(idx[:-1], idx[1:]):
            s += cost[a, b - 1]
        if s < best:
            best = s
    return best


def partition_ssd(values, labels):
    """values, labels: 1-D arrays over the finite cells."""
    values = np.asarray(values, dtype="float64")
    s = 0.0
    for c in np.unique(labels):
        g = values[labels == c]
        g0 = g - g.min()
        s += float(((g0 - g0.mean()) ** 2).sum())
    return s
