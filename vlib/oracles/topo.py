"""Topology generators shared by C15 / C16: small-alphabet rasters whose connected
components have the shapes that one-pass / two-pass labelling and boundary following
get wrong - built by construction, then cropped, flipped, padded and perturbed.

A generated grid is a nested list of alphabet *indices* 0..k-1 (the property module
maps indices to well-separated values of the chosen dtype, and overlays NaN / mask).
Pure functions first (usable from enumerations / tests), Hypothesis wiring last.
"""
from hypothesis import strategies as st

KINDS = ["noise", "sparse", "spiral", "rings", "comb", "serpent", "checker", "diag", "diamond", "holes", "stair", "tree"]


# ------------------------------------------------------------------ constructors

def spiral(h, w, gap=1):
    """Rectangular spiral of 1s (arm width 1, `gap` background cells between arms)."""
    g = [[0] * w for _ in range(h)]
    y = x = 0
    dy, dx = 0, 1
    g[0][0] = 1
    while True:
        moved = False
        for _ in range(2):
            ny, nx = y + dy, x + dx
            ok = 0 <= ny < h and 0 <= nx < w and g[ny][nx] == 0
            if ok:
                for s in range(1, gap + 1):          # keep `gap` cells free ahead
                    ay, ax = ny + s * dy, nx + s * dx
                    if 0 <= ay < h and 0 <= ax < w and g[ay][ax] == 1:
                        ok = False
            if ok:
                y, x = ny, nx
                g[y][x] = 1
                moved = True
                break
            dy, dx = dx, -dy
        if not moved:
            return g


def rings(h, w, k=2, t=1):
    """Concentric rectangular rings of thickness t cycling through k values (nested holes)."""
    return [[(min(i, j, h - 1 - i, w - 1 - j) // t) % k for j in range(w)] for i in range(h)]


def comb(h, w, tops, bridges, pitch=2):
    """Vertical teeth at columns 0, pitch, 2*pitch, ...; tooth c spans rows tops[c]..h-1;
    teeth c and c+1 are joined by a horizontal bridge in row bridges[c] (None = no bridge).
    All bridges in the last row = comb / U; alternating first/last row = S / serpentine;
    mixed rows = multi-level merges."""
    g = [[0] * w for _ in range(h)]
    cols = list(range(0, w, pitch))
    for c, j in enumerate(cols):
        top = tops[c % len(tops)] % h if tops else 0
        for i in range(top, h):
            g[i][j] = 1
    for c in range(len(cols) - 1):
        b = bridges[c % len(bridges)] if bridges else None
        if b is None:
            continue
        i = b % h
        for j in range(cols[c], cols[c + 1] + 1):
            g[i][j] = 1
    return g


def serpent(h, w, pitch=2):
    """Boustrophedon snake: full-height teeth joined alternately at the top and the bottom."""
    n = len(range(0, w, pitch))
    return comb(h, w, [0], [(0 if c % 2 else h - 1) for c in range(max(1, n - 1))], pitch)


def checker(h, w, k=2, b=1):
    return [[((i // b) + (j // b)) % k for j in range(w)] for i in range(h)]


def diag(h, w, p=2, anti=False, k=2):
    """Diagonal stripes of period p: cells touch only at corners (pinch points)."""
    if anti:
        return [[(1 + ((i + j) // p) % (k - 1)) if (i + j) % p == 0 else 0 for j in range(w)] for i in range(h)]
    return [[(1 + ((i - j) // p) % (k - 1)) if (i - j) % p == 0 else 0 for j in range(w)] for i in range(h)]


def diamond(h, w, p=2, ci=None, cj=None):
    """Concentric diamonds |di|+|dj| = 0 mod p: rings under 8-connectivity, dust under 4."""
    ci = h // 2 if ci is None else ci
    cj = w // 2 if cj is None else cj
    return [[1 if (abs(i - ci) + abs(j - cj)) % p == 0 else 0 for j in range(w)] for i in range(h)]


def holes(h, w, rects):
    """A raster full of 1s with rectangles cut out: rects = [(i0, j0, hh, ww, val)], later ones drawn
    over earlier ones (islands inside holes, holes touching the border)."""
    g = [[1] * w for _ in range(h)]
    for (i0, j0, hh, ww, val) in rects:
        for i in range(max(0, i0), min(h, i0 + hh)):
            for j in range(max(0, j0), min(w, j0 + ww)):
                g[i][j] = val
    return g


def stair(h, w, width=1, step=1):
    """Staircase of 1s from the top-left corner: width cells wide, `step` cells per tread."""
    g = [[0] * w for _ in range(h)]
    for i in range(h):
        j0 = (i // step)
        for j in range(j0, min(w, j0 + width)):
            g[i][j] = 1
    return g


def tree(h, w, joins):
    """Teeth at every second column starting in row 0; joins = [(row, c)] bridges tooth c to c+1 in `row`;
    between bridges teeth are cut one row above a bridge at drawn places so that raw labels survive
    below the bridge (multi-level lookup chains)."""
    g = [[0] * w for _ in range(h)]
    for j in range(0, w, 2):
        for i in range(h):
            g[i][j] = 1
    for (row, c) in joins:
        i = row % h
        j = (2 * c) % max(1, w - 2)
        j -= j % 2
        for jj in range(j, min(w, j + 3)):
            g[i][jj] = 1
    return g


# ------------------------------------------------------------------ transformations

def crop(g, top, left, h, w):
    return [row[left:left + w] for row in g[top:top + h]]


def flip(g, ud, lr, tr):
    if tr:
        g = [list(r) for r in zip(*g)]
    if ud:
        g = g[::-1]
    if lr:
        g = [r[::-1] for r in g]
    return [list(r) for r in g]


def pad(g, pt, pb, pl, pr, bg):
    w = len(g[0]) + pl + pr
    out = [[bg] * w for _ in range(pt)]
    for r in g:
        out.append([bg] * pl + list(r) + [bg] * pr)
    out += [[bg] * w for _ in range(pb)]
    return out


# ------------------------------------------------------------------ exhaustive enumeration helpers

def shapes_upto(cells):
    """Every (h, w) with h*w <= cells, incl. 1xN, Nx1 and 1x1."""
    return [(h, w) for h in range(1, cells + 1) for w in range(1, cells // h + 1)]


def enum_chunks(base, max_cells, chunk=1 << 14):
    """[(h, w, lo, hi)]: index ranges covering every raster over a `base`-letter alphabet of every shape
    with <= max_cells cells, smallest grids first (raster idx = digits of idx in that base, row-major)."""
    out = []
    for (h, w) in sorted(shapes_upto(max_cells), key=lambda s: (s[0] * s[1], s[0])):
        total = base ** (h * w)
        for lo in range(0, total, chunk):
            out.append((h, w, lo, min(total, lo + chunk)))
    return out


def split_chunks(chunks, k):
    """Deterministic greedy split of chunks into k bins of similar total size."""
    bins = [[] for _ in range(k)]
    load = [0] * k
    for c in sorted(chunks, key=lambda c: (-(c[3] - c[2]), c[0] * c[1], c[0], c[2])):
        i = load.index(min(load))
        bins[i].append(c)
        load[i] += c[3] - c[2]
    return [sorted(b, key=lambda c: (c[0] * c[1], c[0], c[2])) for b in bins]


def digits(idx, base, count):
    out = []
    for _ in range(count):
        idx, d = divmod(idx, base)
        out.append(d)
    return out


# ------------------------------------------------------------------ Hypothesis wiring

def _digits(n, base, count):
    out = []
    for _ in range(count):
        n, d = divmod(n, base)
        out.append(d)
    return out


@st.composite
def pattern(draw, kind, h, w):
    """One constructor call with drawn parameters at exactly h x w.  Returns (grid, k)."""
    if kind == "noise":
        k = draw(st.sampled_from([2, 2, 3, 4]))
        flat = _digits(draw(st.integers(0, k ** (h * w) - 1)), k, h * w)
        return [flat[i * w:(i + 1) * w] for i in range(h)], k
    if kind == "sparse":
        k = draw(st.sampled_from([2, 3]))
        g = [[0] * w for _ in range(h)]
        cells = draw(st.lists(st.tuples(st.integers(0, h - 1), st.integers(0, w - 1), st.integers(1, k - 1)), max_size=14))
        for (i, j, v) in cells:
            g[i][j] = v
        return g, k
    if kind == "spiral":
        return spiral(h, w, draw(st.sampled_from([1, 1, 2]))), 2
    if kind == "rings":
        k = draw(st.sampled_from([2, 2, 3]))
        return rings(h, w, k, draw(st.sampled_from([1, 1, 2]))), k
    if kind == "comb":
        pitch = draw(st.sampled_from([2, 2, 3]))
        n = len(range(0, w, pitch))
        tops = draw(st.lists(st.integers(0, h - 1), min_size=1, max_size=max(1, n)))
        mode = draw(st.sampled_from(["bottom", "mixed", "mixed"]))
        if mode == "bottom":
            bridges = [h - 1]
        else:
            bridges = draw(st.lists(st.one_of(st.none(), st.integers(0, h - 1)), min_size=1, max_size=max(1, n - 1)))
        return comb(h, w, tops, bridges, pitch), 2
    if kind == "serpent":
        return serpent(h, w, draw(st.sampled_from([2, 2, 3]))), 2
    if kind == "checker":
        k = draw(st.sampled_from([2, 2, 3]))
        return checker(h, w, k, draw(st.sampled_from([1, 1, 2]))), k
    if kind == "diag":
        k = draw(st.sampled_from([2, 2, 3]))
        return diag(h, w, draw(st.sampled_from([2, 2, 3, 4])), draw(st.booleans()), k), k
    if kind == "diamond":
        return diamond(h, w, draw(st.sampled_from([2, 2, 3, 4])), draw(st.integers(0, h - 1)), draw(st.integers(0, w - 1))), 2
    if kind == "holes":
        nr = draw(st.integers(1, 5))
        rects = []
        for _ in range(nr):
            i0 = draw(st.integers(-1, h - 1))
            j0 = draw(st.integers(-1, w - 1))
            rects.append((i0, j0, draw(st.integers(1, max(1, h // 2 + 1))), draw(st.integers(1, max(1, w // 2 + 1))),
                          draw(st.sampled_from([0, 0, 1, 2]))))
        return holes(h, w, rects), 3
    if kind == "stair":
        return stair(h, w, draw(st.sampled_from([1, 1, 2, 3])), draw(st.sampled_from([1, 1, 2]))), 2
    if kind == "tree":
        joins = draw(st.lists(st.tuples(st.integers(0, h - 1), st.integers(0, max(0, w // 2))), min_size=1, max_size=8))
        return tree(h, w, joins), 2
    raise ValueError(kind)


@st.composite
def topo_grid(draw, max_side, min_side=1, kinds=None):
    """(grid of alphabet indices, k, kind) with min_side <= h, w <= max_side.

    pipeline: constructor at a slightly larger size -> crop a window (components and holes get cut by the border)
    -> flip / transpose -> pad with a background value on drawn sides -> overwrite a few drawn cells."""
    kind = draw(st.sampled_from(kinds or KINDS))
    h = draw(st.integers(min_side, max_side))
    w = draw(st.integers(min_side, max_side))
    pt, pb = draw(st.integers(0, 2)), draw(st.integers(0, 2))
    pl, pr = draw(st.integers(0, 2)), draw(st.integers(0, 2))
    if draw(st.booleans()):
        pt = pb = pl = pr = 0
    while pt + pb >= h and (pt or pb):
        pt, pb = max(0, pt - 1), max(0, pb - 1)
    while pl + pr >= w and (pl or pr):
        pl, pr = max(0, pl - 1), max(0, pr - 1)
    hi, wi = h - pt - pb, w - pl - pr
    tr = draw(st.booleans())
    ud = draw(st.booleans())
    lr = draw(st.booleans())
    if tr:
        hi, wi = wi, hi
    if draw(st.booleans()):
        ct = cb = cl = cr = 0
    else:
        ct, cb, cl, cr = (draw(st.integers(0, 4)) for _ in range(4))
    g, k = draw(pattern(kind, hi + ct + cb, wi + cl + cr))
    g = crop(g, ct, cl, hi, wi)
    g = flip(g, ud, lr, tr)
    if pt or pb or pl or pr:
        g = pad(g, pt, pb, pl, pr, draw(st.integers(0, k - 1)))
    nflip = draw(st.sampled_from([0, 0, 1, 2, 3, 6]))
    for _ in range(nflip):
        i = draw(st.integers(0, h - 1))
        j = draw(st.integers(0, w - 1))
        g[i][j] = draw(st.integers(0, min(3, k)))
    k = max(k, 1 + max(max(r) for r in g))
    assert len(g) == h and len(g[0]) == w
    return g, k, kind


@st.composite
def overlay(draw, h, w, grid, allow_all=False):
    """Cells to blank out (NaN for regions / masked for polygonize): flat list of 0/1 (1 = blanked), mode name."""
    n = h * w
    mode = draw(st.sampled_from(["none", "none", "none", "one", "some", "half", "all_but_one", "by_value"] + (["all"] if allow_all else [])))
    if mode == "none":
        return None, mode
    b = [0] * n
    if mode == "one":
        b[draw(st.integers(0, n - 1))] = 1
    elif mode == "some":
        for k in draw(st.lists(st.integers(0, n - 1), min_size=1, max_size=max(1, n // 8))):
            b[k] = 1
    elif mode == "half":
        bits = draw(st.integers(0, (1 << n) - 1))
        b = [(bits >> k) & 1 for k in range(n)]
    elif mode == "all_but_one":
        b = [1] * n
        b[draw(st.integers(0, n - 1))] = 0
    elif mode == "by_value":
        present = sorted({v for r in grid for v in r})
        v = draw(st.sampled_from(present))
        b = [1 if grid[i][j] == v else 0 for i in range(h) for j in range(w)]
    else:
        b = [1] * n
    return b, mode
