"""Reference models shared by C15 (polygonize) and C16 (regions).

Everything here is written from the property statements, not from the code
under test:

* ``components``      flood-fill connected components of equal value (4/8)
* ``partition_diff``  is an observed labelling the same partition as the reference one?
* ``shoelace``        signed area of a closed ring in the (x, y) convention
                      (x = column 0 of the ring array, y = column 1; positive = anticlockwise
                      with x to the right and y up - the convention of
                      xrspatial/tests/test_polygonize.py::calc_boundary_area)
* ring predicates     closed / on cell corners / axis parallel
* ``point_in_ring``   even-odd ray cast for one point (general rings)
* ``ring_cells``      the same even-odd rule evaluated for every cell centre of an
                      H x W raster at once; exact for rings with integer, axis-parallel edges
* ``enclosed_cells``  cells surrounded by a component (class labels only)

Pure Python / NumPy, no Numba, no xrspatial import.
"""
import numpy as np

NB4 = ((0, 1), (1, 0), (0, -1), (-1, 0))
NB8 = NB4 + ((1, 1), (1, -1), (-1, 1), (-1, -1))


# --------------------------------------------------------------------------
# connected components


def components(vals, valid, conn):
    """Flood fill.

    vals  : H x W nested list of Python numbers
    valid : H x W nested list of bools (False = NaN / masked: belongs to no component)
    conn  : 4 or 8
    Returns (lab, ncomp): lab is a flat list (row-major) with 0 for invalid cells and
    1..ncomp otherwise, numbered in row-major order of each component's first cell.
    Two valid cells are in one component iff a path of conn-adjacent valid cells
    of the *same value* (==) joins them.
    """
    if conn not in (4, 8):
        raise ValueError(conn)
    nb = NB4 if conn == 4 else NB8
    H = len(vals)
    W = len(vals[0])
    lab = [0] * (H * W)
    cur = 0
    for i in range(H):
        vi = valid[i]
        for j in range(W):
            if not vi[j] or lab[i * W + j]:
                continue
            cur += 1
            v = vals[i][j]
            lab[i * W + j] = cur
            stack = [(i, j)]
            while stack:
                y, x = stack.pop()
                for dy, dx in nb:
                    yy = y + dy
                    xx = x + dx
                    if 0 <= yy < H and 0 <= xx < W:
                        k = yy * W + xx
                        if not lab[k] and valid[yy][xx] and vals[yy][xx] == v:
                            lab[k] = cur
                            stack.append((yy, xx))
    return lab, cur


def partition_diff(obs, ref):
    """Compare two labelings over the positions where ref != 0.

    obs, ref: flat sequences of equal length (obs entries hashable).
    Returns (split, merged):
      split  = (k0, k1) two positions of one reference component that carry different observed labels, or None
      merged = (k0, k1) two positions of different reference components that carry the same observed label, or None
    """
    first_obs_of_ref = {}
    first_ref_of_obs = {}
    split = merged = None
    for k, rl in enumerate(ref):
        if not rl:
            continue
        ol = obs[k]
        p = first_obs_of_ref.setdefault(rl, (ol, k))
        if p[0] != ol and split is None:
            split = (p[1], k)
        q = first_ref_of_obs.setdefault(ol, (rl, k))
        if q[0] != rl and merged is None:
            merged = (q[1], k)
    return split, merged


def component_cells(lab, ncomp):
    """list (index c-1) of the flat positions of each component."""
    out = [[] for _ in range(ncomp)]
    for k, l in enumerate(lab):
        if l:
            out[l - 1].append(k)
    return out


def is_simple_blob(cells, lab, vals_flat, W):
    """True when a component cannot need a late merge in a raster-scan labelling:
    it is row-convex and column-convex and its bounding box contains no cell of the
    same value that belongs to another component."""
    c = lab[cells[0]]
    v = vals_flat[cells[0]]
    rows = {}
    colsd = {}
    for k in cells:
        i, j = divmod(k, W)
        a = rows.get(i)
        rows[i] = (j, j, 1) if a is None else (min(a[0], j), max(a[1], j), a[2] + 1)
        b = colsd.get(j)
        colsd[j] = (i, i, 1) if b is None else (min(b[0], i), max(b[1], i), b[2] + 1)
    for lo, hi, n in rows.values():
        if hi - lo + 1 != n:
            return False
    for lo, hi, n in colsd.values():
        if hi - lo + 1 != n:
            return False
    i0, i1 = min(rows), max(rows)
    j0, j1 = min(colsd), max(colsd)
    for i in range(i0, i1 + 1):
        for j in range(j0, j1 + 1):
            k = i * W + j
            if lab[k] and lab[k] != c and vals_flat[k] == v:
                return False
    return True


def enclosed_cells(cells, H, W):
    """Cells not in the component that cannot reach the raster border by 4-steps
    without crossing the component (class labels: 'the component has a hole').
    cells: flat positions of the component."""
    inside = set(cells)
    rows = [k // W for k in cells]
    cols = [k % W for k in cells]
    i0, i1, j0, j1 = min(rows), max(rows), min(cols), max(cols)
    if i1 - i0 < 2 or j1 - j0 < 2:
        return []
    # flood the complement inside the bounding box padded by one cell
    seen = set()
    stack = [(i0 - 1, j0 - 1)]
    seen.add(stack[0])
    while stack:
        y, x = stack.pop()
        for dy, dx in NB4:
            yy, xx = y + dy, x + dx
            if i0 - 1 <= yy <= i1 + 1 and j0 - 1 <= xx <= j1 + 1 and (yy, xx) not in seen:
                if 0 <= yy < H and 0 <= xx < W and (yy * W + xx) in inside:
                    continue
                seen.add((yy, xx))
                stack.append((yy, xx))
    out = []
    for i in range(i0, i1 + 1):
        for j in range(j0, j1 + 1):
            if (i, j) not in seen and (i * W + j) not in inside:
                out.append(i * W + j)
    return out


def has_pinch(vals, valid):
    """A 2x2 block whose diagonal cells hold one value while neither anti-diagonal
    cell continues it (diagonal contact only: joined under 8-, apart under 4-connectivity)."""
    H = len(vals)
    W = len(vals[0])
    for i in range(H - 1):
        for j in range(W - 1):
            a, b, c, d = (i, j), (i, j + 1), (i + 1, j), (i + 1, j + 1)
            for (p, q, r, s) in ((a, d, b, c), (b, c, a, d)):
                if valid[p[0]][p[1]] and valid[q[0]][q[1]] and vals[p[0]][p[1]] == vals[q[0]][q[1]]:
                    v = vals[p[0]][p[1]]
                    r_same = valid[r[0]][r[1]] and vals[r[0]][r[1]] == v
                    s_same = valid[s[0]][s[1]] and vals[s[0]][s[1]] == v
                    if not r_same and not s_same:
                        return True
    return False


# --------------------------------------------------------------------------
# rings


def shoelace(ring):
    """Signed area of a closed ring (first point == last point); positive when the
    points run anticlockwise with x = ring[:, 0] to the right and y = ring[:, 1] up."""
    x = ring[:, 0]
    y = ring[:, 1]
    return 0.5 * float(np.dot(x[:-1], y[1:]) - np.dot(x[1:], y[:-1]))


def ring_wellformed(ring):
    return isinstance(ring, np.ndarray) and ring.ndim == 2 and ring.shape[1] == 2 and ring.shape[0] >= 4


def ring_closed(ring):
    return bool(ring[0, 0] == ring[-1, 0] and ring[0, 1] == ring[-1, 1])


def ring_on_corners(ring, H, W):
    """Every vertex is a cell corner of the H x W raster: integer x in [0, W], integer y in [0, H]."""
    if not np.all(np.isfinite(ring)):
        return False
    if not np.array_equal(ring, np.round(ring)):
        return False
    x = ring[:, 0]
    y = ring[:, 1]
    return bool(x.min() >= 0 and x.max() <= W and y.min() >= 0 and y.max() <= H)


def ring_axis_parallel(ring):
    """Consecutive vertices differ in exactly one coordinate."""
    d = np.diff(ring, axis=0)
    return bool(np.all((d[:, 0] != 0) ^ (d[:, 1] != 0)))


def point_in_ring(ring, px, py):
    """Even-odd rule, ray towards +x.  The point must not lie on an edge."""
    inside = False
    n = len(ring)
    for k in range(n - 1):
        x0, y0 = ring[k]
        x1, y1 = ring[k + 1]
        if (y0 > py) != (y1 > py):
            xi = x0 + (py - y0) * (x1 - x0) / (y1 - y0)
            if xi > px:
                inside = not inside
    return inside


def ring_cells(ring, H, W):
    """Boolean H x W array: cell (i, j) is True when its centre (x=j+0.5, y=i+0.5) is inside
    the ring by the even-odd rule.  Requires integer vertices and axis-parallel edges
    (checked by the caller): a ray from the centre towards +x then only ever crosses
    vertical edges, at integer x, between integer y's, so the count is exact."""
    par = np.zeros((H, W), dtype=bool)
    n = len(ring)
    for k in range(n - 1):
        x0 = ring[k, 0]
        x1 = ring[k + 1, 0]
        if x0 != x1:
            continue
        y0 = int(ring[k, 1])
        y1 = int(ring[k + 1, 1])
        if y0 > y1:
            y0, y1 = y1, y0
        xe = int(x0)
        # rows y0..y1-1 have their centre between the edge's ends; centres with j+0.5 < xe see it
        if xe > 0 and y1 > y0:
            par[y0:y1, :xe] ^= True
    return par


# --------------------------------------------------------------------------
# the same ring predicates on plain Python point lists (pts = ring.tolist()); much faster than
# NumPy for the 5-50 point rings of small rasters.  Cross-checked against the NumPy versions and
# against point_in_ring by the C15 "fixtures" shard.


def pts_closed(pts):
    return pts[0][0] == pts[-1][0] and pts[0][1] == pts[-1][1]


def pts_on_corners(pts, H, W):
    for x, y in pts:
        if not (x == x and y == y and 0 <= x <= W and 0 <= y <= H and x == int(x) and y == int(y)):
            return False
    return True


def pts_axis_parallel(pts):
    for k in range(len(pts) - 1):
        if (pts[k][0] != pts[k + 1][0]) == (pts[k][1] != pts[k + 1][1]):
            return False
    return True


def pts_shoelace(pts):
    """Signed area, positive = anticlockwise in (x right, y up); exact for integer vertices."""
    s = 0.0
    for k in range(len(pts) - 1):
        s += pts[k][0] * pts[k + 1][1] - pts[k + 1][0] * pts[k][1]
    return 0.5 * s


def pts_cells(pts, H, W):
    """Flat positions i*W+j of the cells whose centre (j+0.5, i+0.5) lies inside the ring (even-odd rule).
    Requires integer, axis-parallel, in-bounds vertices.  For each row the ray from the centre towards -x
    crosses exactly the vertical edges spanning that row at x <= j; an odd count means inside."""
    cross = {}
    for k in range(len(pts) - 1):
        x0 = pts[k][0]
        if x0 != pts[k + 1][0]:
            continue
        y0 = int(pts[k][1])
        y1 = int(pts[k + 1][1])
        if y0 > y1:
            y0, y1 = y1, y0
        xe = int(x0)
        for i in range(y0, y1):
            cross.setdefault(i, []).append(xe)
    out = []
    for i, xs in cross.items():
        xs.sort()
        # parity flips at every crossing; cells j in [xs[2m], xs[2m+1]) are inside
        for m in range(0, len(xs) - 1, 2):
            a, b = xs[m], xs[m + 1]
            base = i * W
            for j in range(a, b):
                out.append(base + j)
    return out
