"""Brute-force reference models for zonal.stats and zonal.crosstab (mask arithmetic, float64).
Shares no code with the sort-and-stride implementation."""
import math

import numpy as np

STAT_NAMES = ["mean", "max", "min", "sum", "std", "var", "count"]

# order-independent user reducers (zone slices arrive in unstable argsort order)
USER_REDUCERS = {
    "double_sum": lambda z: 2 * z.sum(),
    "median": lambda z: np.median(z),
    "n_positive": lambda z: (z > 0).sum(),
    "range": lambda z: float(z.max()) - float(z.min()),   # float(): no int8 wrap-around inside the user function
}


def _ref_user(name, v):
    v = v.astype("float64")
    if name == "double_sum":
        return 2 * v.sum()
    if name == "median":
        s = np.sort(v)
        n = len(s)
        return s[n // 2] if n % 2 else 0.5 * (s[n // 2 - 1] + s[n // 2])
    if name == "n_positive":
        return float((v > 0).sum())
    if name == "range":
        return v.max() - v.min()
    raise KeyError(name)


def valid_mask(values, nodata):
    m = np.isfinite(values)
    if nodata is not None:
        m &= (values != nodata)
    return m


def zone_ids_present(zones):
    z = np.asarray(zones)
    if z.dtype.kind == "f":
        z = z[np.isfinite(z)]
    return sorted(set(z.ravel().tolist()))


def ref_stat(name, v):
    """Statistic `name` over 1-D array v of valid values, in float64; NaN when empty."""
    if len(v) == 0:
        return float("nan")
    if name in USER_REDUCERS:
        return float(_ref_user(name, v))
    f = v.astype("float64")
    if name == "mean":
        return math.fsum(f) / len(f)
    if name == "max":
        return float(f.max())
    if name == "min":
        return float(f.min())
    if name == "sum":
        return math.fsum(f)
    if name == "count":
        return float(len(f))
    m = math.fsum(f) / len(f)
    var = math.fsum((f - m) ** 2) / len(f)
    if name == "var":
        return var
    if name == "std":
        return math.sqrt(var)
    raise KeyError(name)


def ref_stats_table(zones, values, zone_ids, nodata, stat_names):
    """-> (ids ascending, {id: {stat: value}})"""
    ids = zone_ids_present(zones)
    if zone_ids is not None:
        want = set(float(z) for z in zone_ids)
        ids = [i for i in ids if float(i) in want]
    vm = valid_mask(values, nodata)
    table = {}
    for i in ids:
        v = values[(zones == i) & vm]
        table[i] = {s: ref_stat(s, v) for s in stat_names}
    return ids, table


def ref_crosstab_2d(zones, values, nodata):
    """Unrestricted contingency table: (zone ids, cats, counts[z][c], totals[z])."""
    ids = zone_ids_present(zones)
    vm = valid_mask(values, nodata)
    cats = sorted(set(values[vm].ravel().tolist()))
    counts, totals = {}, {}
    for z in ids:
        zm = (zones == z) & vm
        totals[z] = int(zm.sum())
        counts[z] = {c: int((zm & (values == c)).sum()) for c in cats}
    return ids, cats, counts, totals


def ref_crosstab_3d(zones, values3, layer_labels, nodata, agg):
    """values3: (L,H,W). Entry = agg over valid cells of layer c within zone z.
    Empty set: count 0, sum 0, otherwise NaN."""
    ids = zone_ids_present(zones)
    out = {}
    for z in ids:
        row = {}
        for li, lab in enumerate(layer_labels):
            lay = values3[li]
            v = lay[(zones == z) & valid_mask(lay, nodata)]
            if len(v) == 0:
                row[lab] = 0.0 if agg in ("count", "sum") else float("nan")
            else:
                row[lab] = ref_stat(agg, v)
        out[z] = row
    return ids, out


def close(a, b, rtol=1e-9, atol=1e-9):
    a = float(a)
    b = float(b)
    if math.isnan(a) or math.isnan(b):
        return math.isnan(a) and math.isnan(b)
    if math.isinf(a) or math.isinf(b):
        return a == b
    return abs(a - b) <= atol + rtol * max(abs(a), abs(b))
