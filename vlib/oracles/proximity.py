"""Reference definitions for proximity / allocation / direction (float64, brute force over all targets)."""
import math

import numpy as np

R_EARTH = 6378137.0


def haversine(x1, x2, y1, y2, R=R_EARTH):
    la1, lo1, la2, lo2 = map(math.radians, (y1, x1, y2, x2))
    a = math.sin((la2 - la1) / 2) ** 2 + math.cos(la1) * math.cos(la2) * math.sin((lo2 - lo1) / 2) ** 2
    return R * 2 * math.asin(math.sqrt(min(1.0, a)))


def metric_fn(metric):
    if metric == "EUCLIDEAN":
        return lambda x1, x2, y1, y2: math.hypot(x1 - x2, y1 - y2)
    if metric == "MANHATTAN":
        return lambda x1, x2, y1, y2: abs(x1 - x2) + abs(y1 - y2)
    if metric == "GREAT_CIRCLE":
        return haversine
    raise KeyError(metric)


def bearing(x1, y1, x2, y2):
    """Compass bearing from (x1,y1) to (x2,y2); +y is SOUTH in this library's convention
    (test_calc_direction): +x = 90, +y = 180, -x = 270, -y = 360 (north is 360, never 0), self = 0."""
    if x1 == x2 and y1 == y2:
        return 0.0
    b = math.degrees(math.atan2(x2 - x1, -(y2 - y1))) % 360.0
    return 360.0 if b == 0 else b


def target_mask(a, target_values):
    if len(target_values):
        return np.isin(a, np.asarray(target_values, dtype="float64"))
    with np.errstate(invalid="ignore"):
        return (a != 0) & np.isfinite(a)


def dist_matrix(xs, ys, metric):
    """D[p, q] between all cells (row-major) of the grid with coordinate vectors ys (rows), xs (cols)."""
    H, W = len(ys), len(xs)
    X = np.tile(np.asarray(xs, float), H)
    Y = np.repeat(np.asarray(ys, float), W)
    if metric == "EUCLIDEAN":
        return np.hypot(X[:, None] - X[None, :], Y[:, None] - Y[None, :])
    if metric == "MANHATTAN":
        return np.abs(X[:, None] - X[None, :]) + np.abs(Y[:, None] - Y[None, :])
    la1, lo1 = np.radians(Y)[:, None], np.radians(X)[:, None]
    la2, lo2 = np.radians(Y)[None, :], np.radians(X)[None, :]
    a = np.sin((la2 - la1) / 2) ** 2 + np.cos(la1) * np.cos(la2) * np.sin((lo2 - lo1) / 2) ** 2
    return R_EARTH * 2 * np.arcsin(np.sqrt(np.minimum(1.0, a)))
