"""Reference models for C09 (focal statistics, focal mean, convolution, hotspots).

Everything here is written from the property statement, in float64 on the
ORIGINAL data, with a shift-and-stack formulation (one NaN-padded copy of the
raster per kernel position) that shares no code and no loop structure with
xrspatial's per-cell window walk.

Precision: the statement fixes neither the working precision nor the dtype of
the window / result.  Every tolerance below therefore accepts any evaluation
that (a) may round each input value once to single precision (eps32*|x| per
value entering the statistic), (b) evaluates the statistic in single OR double
precision in any order, and (c) may round the result once to single precision.
Statistics that return an input value (min, max, a reducer returning a window
entry) are accepted as the value itself or its float32 rounding - nothing else.

Conventions
-----------
kernel position (i, j) of an odd (kh, kw) kernel centred on cell (y, x) lies
over raster cell (y + i - kh//2, x + j - kw//2).
"""
import numpy as np

EPS32 = 2.0 ** -23
EPS64 = 2.0 ** -52
TINY32 = 2.0 ** -126          # smallest normal float32: absolute floor of every single-precision bound (underflow)
STATS = ["mean", "max", "min", "range", "std", "var", "sum"]
HOT_LEVELS = (0, 90, 95, 99)
HOT_THRESHOLDS = (1.65, 1.96, 2.58)


def f64(a):
    return np.asarray(a).astype(np.float64)


def f32(a):
    """The data rounded once to single precision (held in float64)."""
    return np.asarray(a).astype(np.float32).astype(np.float64)


def padded(a64, hr, hc, fill=np.nan):
    H, W = a64.shape
    p = np.full((H + 2 * hr, W + 2 * hc), fill, dtype=a64.dtype)
    p[hr:hr + H, hc:hc + W] = a64
    return p


def window_stack(a64, mask):
    """(n_selected, H, W): layer for kernel position (i, j) holds, at (y, x), the raster value
    under that position (NaN where the position falls outside the raster)."""
    H, W = a64.shape
    kh, kw = mask.shape
    p = padded(a64, kh // 2, kw // 2)
    layers = [p[i:i + H, j:j + W] for i in range(kh) for j in range(kw) if mask[i, j]]
    if not layers:
        return np.empty((0, H, W))
    return np.stack(layers)


def window_stats(a, kernel, member=None):
    """Brute-force window statistics in float64 on the original data.

    Returns (ref, tol, info): dicts stat -> (H, W) float64 arrays; info holds the per-cell count of
    valid cells, the per-cell number of NaN cells under 1-entries, the selection mask, and `alt`:
    stat -> second acceptable exact value (float32 rounding of the reference) for min / max.
    Empty window => NaN for every statistic except sum (0): the NumPy nan-function semantics.
    `member` overrides the membership mask (default kernel == 1).

    Tolerances (n valid cells, S = sum|x|, fac = max(2, n/2)):
      sum   (fac + 1) eps32 S + eps32 |ref|     any-order single-precision accumulation (DESIGN App. C "window sums" with the
                                                factor 2 widened to n/2 for a float32 accumulator) + one rounding per input + result
      mean  that / n
      min / max   exact: the value or its float32 rounding
      range eps32 (|max| + |min|) + eps32 |ref|
      var / std   propagated: each deviation is off by at most e = dm + eps32 max|x|, M = max|x - mean|.
    """
    x = f64(a)
    H, W = x.shape
    mask = (np.asarray(kernel) == 1) if member is None else np.asarray(member, bool)
    st = window_stack(x, mask)
    n_sel = st.shape[0]
    ref, tol, alt = {}, {}, {}
    if n_sel == 0:
        nan = np.full((H, W), np.nan)
        for s in STATS:
            ref[s] = nan.copy()
            tol[s] = np.zeros((H, W))
        ref["sum"] = np.zeros((H, W))
        return ref, tol, {"count": np.zeros((H, W), int), "nan_under": np.zeros((H, W), int), "mask": mask, "alt": alt}
    valid = ~np.isnan(st)
    cnt = valid.sum(axis=0)
    z = np.where(valid, st, 0.0)
    s = z.sum(axis=0)
    sabs = np.abs(z).sum(axis=0)
    amax = np.abs(z).max(axis=0)
    empty = cnt == 0
    cs = np.where(empty, 1, cnt)
    mean = np.where(empty, np.nan, s / cs)
    mx = np.fmax.reduce(st, axis=0)
    mn = np.fmin.reduce(st, axis=0)
    dev = np.where(valid, st - np.where(empty, 0.0, mean)[None], 0.0)
    var = np.where(empty, np.nan, (dev * dev).sum(axis=0) / cs)
    std = np.sqrt(var)
    M = np.abs(dev).max(axis=0)
    fac = np.maximum(2.0, cnt / 2.0) * EPS32
    m0 = np.where(empty, 0.0, mean)
    ref["sum"], tol["sum"] = s, (fac + EPS32) * sabs + EPS32 * np.abs(s) + TINY32
    dm = (fac + EPS32) * sabs / cs + EPS32 * np.abs(m0) + TINY32
    ref["mean"], tol["mean"] = mean, dm
    ref["max"], tol["max"] = mx, np.zeros((H, W))
    ref["min"], tol["min"] = mn, np.zeros((H, W))
    alt["max"], alt["min"] = f32(mx), f32(mn)
    mx0, mn0 = np.where(empty, 0.0, mx), np.where(empty, 0.0, mn)
    ref["range"] = mx - mn
    tol["range"] = EPS32 * (np.abs(mx0) + np.abs(mn0)) + EPS32 * np.abs(mx0 - mn0) + TINY32
    v0 = np.where(empty, 0.0, var)
    e = dm + EPS32 * amax
    tv = 2 * M * e + e * e + 3 * fac * M * M + EPS32 * v0 + TINY32
    ref["var"], tol["var"] = var, tv
    s0 = np.sqrt(v0)
    with np.errstate(divide="ignore", invalid="ignore"):
        ts = np.minimum(np.sqrt(tv), np.where(s0 > 0, tv / np.where(s0 > 0, s0, 1.0), np.inf))
    ref["std"], tol["std"] = std, ts + EPS32 * s0
    # number of NaN raster cells under 1-entries (inside the raster)
    inside = window_stack(np.ones((H, W)), mask)
    nan_under = (np.isnan(st) & ~np.isnan(inside)).sum(axis=0)
    return ref, tol, {"count": cnt, "nan_under": nan_under, "mask": mask, "alt": alt}


def reducer_windows(a, kernel):
    """Yield (y, x, w): w is the float64 (kh, kw) buffer the reducer contract describes - the raster value
    at positions where the kernel is 1 and the position lies inside the raster, NaN at every other position.
    (The dtype of the window the implementation hands over is not part of the contract.)"""
    x = f64(a)
    H, W = x.shape
    mask = (np.asarray(kernel) == 1)
    kh, kw = mask.shape
    p = padded(x, kh // 2, kw // 2)
    for y in range(H):
        for xx in range(W):
            w = p[y:y + kh, xx:xx + kw].copy()
            w[~mask] = np.nan
            yield y, xx, w


def close(out, ref, tol, alt=None):
    """Per-cell verdict: NaN pattern identical and |out - ref| <= tol (or out equal to `alt`, a second
    acceptable exact value).  Returns boolean array of BAD cells."""
    out = np.asarray(out, dtype=np.float64)
    rn, on = np.isnan(ref), np.isnan(out)
    with np.errstate(invalid="ignore"):
        # an infinite reference value is matched exactly (its tolerance, scaled by the window's magnitude, is infinite too)
        good = np.where(np.isinf(ref), out == ref, (np.abs(out - ref) <= tol) | (out == ref))
        if alt is not None:
            good |= (out == alt)
        bad = (rn != on) | (~rn & ~on & ~good)
    return bad


# ---------------------------------------------------------------- focal.mean

def _dyadic(v):
    """finite values whose sums are exact in float64 in any order (multiples of 2^-20 below 2^20)."""
    s = v * 1048576.0
    return bool(np.all(np.abs(v) < 1048576.0) and np.all(s == np.floor(s)))


def mean_passes(a, passes, excludes, band=1e-9):
    """3x3 clipped nan-mean iterated `passes` times on the float64 data; cells whose value equals an
    excluded value (NaN equals NaN) are copied through.

    Returns (result, tol, ambiguous).  `ambiguous` is True when a value computed in a pass that is followed by
    another pass lies within `band` (relative) of a finite excluded value while its window sum is not exact in
    every summation order: then "is this intermediate cell excluded?" is a rounding decision and the case is not judged.
    tol: float64 forward bound.  One pass: a sum of n <= 9 values in any association is off by at most (n-1) eps64/2 S|x|,
    the quotient adds eps64/2 |ref|, so |error| <= n eps64 S|x| / n <= 9 eps64 max|x|; a mean is a convex combination, so
    errors of earlier passes are carried, not amplified: <= 9 eps64 max|x| per pass, <= 27 eps64 max|x| for 3 passes;
    64 eps64 max|x| is used.  Cells excluded from the start are compared bit for bit by the caller, not with this bound.
    """
    x = np.asarray(a).astype(np.float64)
    H, W = x.shape
    fin = x[np.isfinite(x)]
    amax = float(np.abs(fin).max()) if fin.size else 0.0
    ex_nan = any(isinstance(e, float) and np.isnan(e) for e in excludes)
    ex_fin = [float(e) for e in excludes if not (isinstance(e, float) and np.isnan(e))]
    ambiguous = False
    for p in range(passes):
        exm = np.zeros((H, W), bool)
        if ex_nan:
            exm |= np.isnan(x)
        for e in ex_fin:
            exm |= (x == e)
        st = window_stack(x, np.ones((3, 3), bool))
        valid = ~np.isnan(st)
        cnt = valid.sum(axis=0)
        s = np.where(valid, st, 0.0).sum(axis=0)
        m = np.where(cnt == 0, np.nan, s / np.where(cnt == 0, 1, cnt))
        new = np.where(exm, x, m)
        if p < passes - 1 and ex_fin:
            for e in ex_fin:
                with np.errstate(invalid="ignore"):
                    near = ~exm & (np.abs(m - e) <= band * max(1.0, abs(e)))
                for (yy, xx) in np.argwhere(near):
                    wv = st[:, yy, xx]
                    wv = wv[~np.isnan(wv)]
                    if not _dyadic(wv):
                        ambiguous = True
        x = new
    return x, 64 * EPS64 * max(amax, 1e-300), ambiguous


# ---------------------------------------------------------------- convolution

def _conv_raw(x, k):
    """x float64 (H, W) with NaN, k float64 weights.  Returns (sum with NaN taken as 0, sum of |k x|, leaves, nan_any, nan_nz):
    leaves - window leaves the raster; nan_any - a NaN raster cell lies anywhere in the full window;
    nan_nz - a NaN raster cell lies under a non-zero weight."""
    H, W = x.shape
    kh, kw = k.shape
    full = np.ones((kh, kw), bool)
    st = window_stack(x, full)                                   # (kh*kw, H, W)
    inside = ~np.isnan(window_stack(np.ones((H, W)), full))
    leaves = ~inside.all(axis=0)
    isn = np.isnan(st) & inside
    kk = k.reshape(-1)[:, None, None]
    nan_any = isn.any(axis=0)
    nan_nz = (isn & (kk != 0)).any(axis=0)
    z = np.where(np.isnan(st), 0.0, st)
    return (kk * z).sum(axis=0), np.abs(kk * z).sum(axis=0), leaves, nan_any, nan_nz


def conv_full(a, kernel):
    """Kernel-weighted sum over the FULL window in float64 on the original data. NaN wherever the window leaves
    the raster and wherever a NaN lies anywhere in the window (also under a zero weight: 0 * NaN is NaN).
    Returns (ref, tol, leaves, nan_in_window); tol = (max(2, n/2) + 1) eps32 S|k x| + eps32 |ref| for n = kh*kw taps."""
    x = f64(a)
    k = np.asarray(kernel, dtype=np.float64)
    s, sabs, leaves, nan_any, _ = _conv_raw(x, k)
    ref = np.where(leaves | nan_any, np.nan, s)
    n = k.size
    tol = (max(2.0, n / 2.0) + 1.0) * EPS32 * sabs + EPS32 * np.abs(np.where(np.isnan(ref), 0.0, ref)) + TINY32
    return ref, tol, leaves, nan_any & ~leaves


# ---------------------------------------------------------------- hotspots

def hot_class(z):
    az = abs(z)
    c = 99 if az > 2.58 else 95 if az > 1.96 else 90 if az > 1.65 else 0
    return c if z > 0 else -c


def _classes(z):
    cls = np.zeros(z.shape, int)
    for idx in np.argwhere(~np.isnan(z)):
        cls[tuple(idx)] = hot_class(z[tuple(idx)])
    return cls


def _zscores(x, k):
    """z of the neighbourhood mean against the global mean / population std of the valid cells (float64 arithmetic on x).
    Returns (z strict, z lenient, mean, std): strict is NaN where the window leaves the raster or holds a NaN anywhere;
    lenient is NaN only where it leaves the raster or a NaN lies under a non-zero weight."""
    fin = x[~np.isnan(x)]
    m = float(fin.mean())
    dev = fin - m
    sd = float(np.sqrt((dev * dev).mean()))
    s, _, leaves, nan_any, nan_nz = _conv_raw(x, k / k.sum())
    with np.errstate(divide="ignore", invalid="ignore"):
        z = (s - m) / sd
    return np.where(leaves | nan_any, np.nan, z), np.where(leaves | nan_nz, np.nan, z), m, sd


def _const_exact(fin):
    v = float(fin[0])
    # the mean of n equal values reproduces the value (hence std == 0 exactly) in single and double precision when n*v is exact
    return bool(v * 1024 == np.floor(v * 1024) and abs(v) * fin.size < 8192)


def hotspots_ref(a, kernel):
    """Class of every cell from the float64 z-score on the original data, with the decision made only where an
    evaluation on the float32-rounded data agrees and both are farther than `band` from 1.65 / 1.96 / 2.58.

    Returns dict with const / exact_const (zero global std), or z, cls, band, decidable (bool), undefined (strict z is NaN),
    soft (the only NaNs in the window lie under zero weights: 0 and the class of the lenient z are both acceptable),
    cls_soft, decidable_soft, mean, std.
    band = max(1e-4, 64 eps32 (1 + max|x| / std)): forward bound of a single-precision evaluation of z.
    """
    k = np.asarray(kernel, dtype=np.float64)
    x64, x32 = f64(a), f32(a)
    fin64, fin32 = x64[~np.isnan(x64)], x32[~np.isnan(x32)]
    c64 = bool(np.all(fin64 == fin64[0]))
    c32 = bool(np.all(fin32 == fin32[0]))
    out = {"const": c64 or c32, "mean": float(fin64.mean())}
    if c64 or c32:
        # decidable only if constant in both roundings and the constant sums exactly
        out["exact_const"] = bool(c64 and c32 and _const_exact(fin64))
        return out
    z, zl, m, sd = _zscores(x64, k)
    z2, zl2, _, sd2 = _zscores(x32, k)
    amax = float(np.abs(fin64).max())
    band = max(1e-4, 64 * EPS32 * (1.0 + amax / min(sd, sd2)))

    def decide(za, zb):
        ca, cb = _classes(za), _classes(zb)
        with np.errstate(invalid="ignore"):
            dec = (ca == cb)
            for t in HOT_THRESHOLDS:
                dec &= ~(np.abs(np.abs(za) - t) <= band) & ~(np.abs(np.abs(zb) - t) <= band)
        return ca, dec

    cls, dec = decide(z, z2)
    cls_soft, dec_soft = decide(zl, zl2)
    undefined = np.isnan(z)
    soft = undefined & ~np.isnan(zl)
    out.update(z=z, cls=cls, band=band, decidable=dec & ~undefined, undefined=undefined, soft=soft,
               cls_soft=cls_soft, decidable_soft=dec_soft & soft, mean=m, std=sd)
    return out


# ---------------------------------------------------------------- kernel symmetry

def kernel_asym(k):
    """True if the kernel differs from each of its images under the non-trivial symmetries of its shape
    (left-right / up-down flip, half turn; for square shapes also transpose, anti-transpose, quarter turns)."""
    k = np.asarray(k)
    kh, kw = k.shape
    imgs = []
    if kw > 1:
        imgs.append(k[:, ::-1])
    if kh > 1:
        imgs.append(k[::-1, :])
    if kh > 1 and kw > 1:
        imgs.append(k[::-1, ::-1])
    if kh == kw and kh > 1:
        imgs += [k.T, k[::-1, ::-1].T, np.rot90(k), np.rot90(k, 3)]
    if not imgs:
        return False
    return all(not np.array_equal(k, im) for im in imgs)
