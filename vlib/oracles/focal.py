"""Reference models for C09 (focal statistics, focal mean, convolution, hotspots).

Everything here is written from the property statement, in float64 on the
float32-cast data, with a shift-and-stack formulation (one NaN-padded copy of
the raster per kernel position) that shares no code and no loop structure with
xrspatial's per-cell window walk.

Conventions
-----------
kernel position (i, j) of an odd (kh, kw) kernel centred on cell (y, x) lies
over raster cell (y + i - kh//2, x + j - kw//2).
"""
import numpy as np

EPS32 = 2.0 ** -23
EPS64 = 2.0 ** -52
TINY32 = 2.0 ** -126          # smallest normal float32: absolute floor of every single-precision bound (underflow)
STATS = ["mean", "max", "min", "range", "std", "var", "sum"]
HOT_LEVELS = (0, 90, 95, 99)
HOT_THRESHOLDS = (1.65, 1.96, 2.58)


def f32(a):
    """The data as the focal tools see it: cast to float32 (held in float64)."""
    return np.asarray(a).astype(np.float32).astype(np.float64)


def padded(a64, hr, hc, fill=np.nan):
    H, W = a64.shape
    p = np.full((H + 2 * hr, W + 2 * hc), fill, dtype=a64.dtype)
    p[hr:hr + H, hc:hc + W] = a64
    return p


def window_stack(a64, mask):
    """(n_selected, H, W): layer for kernel position (i, j) holds, at (y, x), the raster value
    under that position (NaN where the position falls outside the raster)."""
    H, W = a64.shape
    kh, kw = mask.shape
    p = padded(a64, kh // 2, kw // 2)
    layers = [p[i:i + H, j:j + W] for i in range(kh) for j in range(kw) if mask[i, j]]
    if not layers:
        return np.empty((0, H, W))
    return np.stack(layers)


def window_stats(a, kernel):
    """Brute-force window statistics.

    Returns (ref, tol, info): dicts stat -> (H, W) float64 arrays; info holds the per-cell count of
    valid cells, the per-cell number of NaN cells under 1-entries, the selection mask.
    Empty window => NaN for every statistic except sum (0): the NumPy nan-function semantics.

    Tolerances are forward error bounds for ANY evaluation order in single precision
    (n valid cells, u = eps32/2):  sum: (n-1)u.S|x| + eps32|ref|   (DESIGN App. C "window sums", with the
    factor 2 replaced by max(2, n/2) because a float32 accumulator over up to 121 cells is legitimate);
    mean: that / n; min/max: exact (they are input values); range: one rounding;
    var/std: propagated from the mean's bound dm with M = max|x - mean|.
    """
    x = f32(a)
    H, W = x.shape
    mask = (np.asarray(kernel) == 1)
    st = window_stack(x, mask)
    n_sel = st.shape[0]
    ref, tol = {}, {}
    if n_sel == 0:
        nan = np.full((H, W), np.nan)
        for s in STATS:
            ref[s] = nan.copy()
            tol[s] = np.zeros((H, W))
        ref["sum"] = np.zeros((H, W))
        return ref, tol, {"count": np.zeros((H, W), int), "nan_under": np.zeros((H, W), int), "mask": mask}
    valid = ~np.isnan(st)
    cnt = valid.sum(axis=0)
    z = np.where(valid, st, 0.0)
    s = z.sum(axis=0)
    sabs = np.abs(z).sum(axis=0)
    empty = cnt == 0
    cs = np.where(empty, 1, cnt)
    mean = np.where(empty, np.nan, s / cs)
    mx = np.fmax.reduce(st, axis=0)
    mn = np.fmin.reduce(st, axis=0)
    dev = np.where(valid, st - np.where(empty, 0.0, mean)[None], 0.0)
    var = np.where(empty, np.nan, (dev * dev).sum(axis=0) / cs)
    std = np.sqrt(var)
    M = np.abs(dev).max(axis=0)
    fac = np.maximum(2.0, cnt / 2.0) * EPS32
    ref["sum"], tol["sum"] = s, fac * sabs + EPS32 * np.abs(s) + TINY32
    dm = fac * sabs / cs + EPS32 * np.abs(np.where(empty, 0.0, mean)) + TINY32
    ref["mean"], tol["mean"] = mean, dm
    ref["max"], tol["max"] = mx, np.zeros((H, W))
    ref["min"], tol["min"] = mn, np.zeros((H, W))
    ref["range"] = mx - mn
    tol["range"] = EPS32 * np.abs(np.where(empty, 0.0, ref["range"])) + TINY32
    v0 = np.where(empty, 0.0, var)
    tv = 2 * M * dm + dm * dm + 3 * fac * M * M + EPS32 * v0 + TINY32
    ref["var"], tol["var"] = var, tv
    s0 = np.sqrt(v0)
    with np.errstate(divide="ignore", invalid="ignore"):
        ts = np.minimum(np.sqrt(tv), np.where(s0 > 0, tv / np.where(s0 > 0, s0, 1.0), np.inf))
    ref["std"], tol["std"] = std, ts + EPS32 * s0
    # number of NaN raster cells under 1-entries (inside the raster)
    inside = window_stack(np.ones((H, W)), mask)
    nan_under = (np.isnan(st) & ~np.isnan(inside)).sum(axis=0)
    return ref, tol, {"count": cnt, "nan_under": nan_under, "mask": mask}


def reducer_windows(a, kernel):
    """Yield (y, x, w): w is the float32 (kh, kw) buffer the reducer contract describes - the raster value
    (as float32) at positions where the kernel is 1 and the position lies inside the raster, NaN at every other position."""
    x32 = np.asarray(a).astype(np.float32)
    H, W = x32.shape
    mask = (np.asarray(kernel) == 1)
    kh, kw = mask.shape
    p = padded(x32, kh // 2, kw // 2, fill=np.float32(np.nan))
    for y in range(H):
        for xx in range(W):
            w = p[y:y + kh, xx:xx + kw].copy()
            w[~mask] = np.nan
            yield y, xx, w


def close(out, ref, tol):
    """Per-cell verdict: NaN pattern identical and |out - ref| <= tol. Returns boolean array of BAD cells."""
    out = np.asarray(out, dtype=np.float64)
    rn, on = np.isnan(ref), np.isnan(out)
    with np.errstate(invalid="ignore"):
        bad = (rn != on) | (~rn & ~on & ~(np.abs(out - ref) <= tol))
    return bad


# ---------------------------------------------------------------- focal.mean

def _dyadic(v):
    """finite values whose sums are exact in float64 in any order (multiples of 2^-20 below 2^20)."""
    s = v * 1048576.0
    return bool(np.all(np.abs(v) < 1048576.0) and np.all(s == np.floor(s)))


def mean_passes(a, passes, excludes, band=1e-9):
    """3x3 clipped nan-mean iterated `passes` times on the float64 data; cells whose value equals an
    excluded value (NaN equals NaN) are copied through.

    Returns (result, tol, ambiguous).  `ambiguous` is True when a value computed in a pass that is followed by
    another pass lies within `band` (relative) of a finite excluded value while its window sum is not exact in
    every summation order: then "is this intermediate cell excluded?" is a rounding decision and the case is not judged.
    tol: a mean is a convex combination, so rounding errors do not amplify across passes; 64*eps64*max|x| absolute.
    """
    x = np.asarray(a).astype(np.float64)
    H, W = x.shape
    fin = x[np.isfinite(x)]
    amax = float(np.abs(fin).max()) if fin.size else 0.0
    ex_nan = any(isinstance(e, float) and np.isnan(e) for e in excludes)
    ex_fin = [float(e) for e in excludes if not (isinstance(e, float) and np.isnan(e))]
    ambiguous = False
    for p in range(passes):
        exm = np.zeros((H, W), bool)
        if ex_nan:
            exm |= np.isnan(x)
        for e in ex_fin:
            exm |= (x == e)
        st = window_stack(x, np.ones((3, 3), bool))
        valid = ~np.isnan(st)
        cnt = valid.sum(axis=0)
        s = np.where(valid, st, 0.0).sum(axis=0)
        m = np.where(cnt == 0, np.nan, s / np.where(cnt == 0, 1, cnt))
        new = np.where(exm, x, m)
        if p < passes - 1 and ex_fin:
            for e in ex_fin:
                with np.errstate(invalid="ignore"):
                    near = ~exm & (np.abs(m - e) <= band * max(1.0, abs(e)))
                for (yy, xx) in np.argwhere(near):
                    wv = st[:, yy, xx]
                    wv = wv[~np.isnan(wv)]
                    if not _dyadic(wv):
                        ambiguous = True
        x = new
    return x, 64 * EPS64 * max(amax, 1e-300), ambiguous


# ---------------------------------------------------------------- convolution

def conv_full(a, kernel):
    """Kernel-weighted sum over the FULL window. NaN wherever the window leaves the raster and wherever a NaN
    lies anywhere in the window (also under a zero weight).  Returns (ref, tol, leaves, nan_in_window)."""
    x = f32(a)
    k = np.asarray(kernel, dtype=np.float64)
    H, W = x.shape
    kh, kw = k.shape
    hr, hc = kh // 2, kw // 2
    st = window_stack(x, np.ones((kh, kw), bool))           # (kh*kw, H, W)
    inside = ~np.isnan(window_stack(np.ones((H, W)), np.ones((kh, kw), bool)))
    leaves = ~inside.all(axis=0)
    nanwin = (np.isnan(st) & inside).any(axis=0)
    kk = k.reshape(-1)[:, None, None]
    z = np.where(np.isnan(st), 0.0, st)
    ref = (kk * z).sum(axis=0)
    sabs = np.abs(kk * z).sum(axis=0)
    ref = np.where(leaves | nanwin, np.nan, ref)
    n = kh * kw
    tol = max(2.0, n / 2.0) * EPS32 * sabs + EPS32 * np.abs(np.where(np.isnan(ref), 0.0, ref)) + TINY32
    return ref, tol, leaves, nanwin & ~leaves


# ---------------------------------------------------------------- hotspots

def hot_class(z):
    az = abs(z)
    c = 99 if az > 2.58 else 95 if az > 1.96 else 90 if az > 1.65 else 0
    return c if z > 0 else -c


def hotspots_ref(a, kernel):
    """Returns dict: z (float64, NaN where undefined), cls (expected class, int), band (scalar decision band),
    decidable (bool array: |z| farther than band from every threshold), std, mean, exact_const."""
    x = f32(a)
    k = np.asarray(kernel, dtype=np.float64)
    fin = x[~np.isnan(x)]
    m = fin.mean()
    dev = fin - m
    sd = float(np.sqrt((dev * dev).mean()))
    amax = float(np.abs(fin).max())
    conv, _, _, _ = conv_full(a, k / k.sum())
    out = {"mean": m, "std": sd, "amax": amax}
    if fin.size and np.all(fin == fin[0]):
        out["const"] = True
        v = float(fin[0])
        # a constant raster has std exactly 0 in single precision when n*v is exact (small dyadic v)
        out["exact_const"] = bool(v * 1024 == np.floor(v * 1024) and abs(v) * fin.size < 8192)
        return out
    out["const"] = False
    z = (conv - m) / sd
    band = max(1e-4, 64 * EPS32 * (1.0 + amax / sd))
    with np.errstate(invalid="ignore"):
        az = np.abs(z)
        dec = np.ones(z.shape, bool)
        for t in HOT_THRESHOLDS:
            dec &= ~(np.abs(az - t) <= band)
    cls = np.zeros(z.shape, int)
    for idx in np.argwhere(~np.isnan(z)):
        cls[tuple(idx)] = hot_class(z[tuple(idx)])
    out.update(z=z, cls=cls, band=band, decidable=dec | np.isnan(z))
    return out


# ---------------------------------------------------------------- kernel symmetry

def kernel_asym(k):
    """True if the kernel differs from each of its images under the non-trivial symmetries of its shape
    (left-right / up-down flip, half turn; for square shapes also transpose, anti-transpose, quarter turns)."""
    k = np.asarray(k)
    kh, kw = k.shape
    imgs = []
    if kw > 1:
        imgs.append(k[:, ::-1])
    if kh > 1:
        imgs.append(k[::-1, :])
    if kh > 1 and kw > 1:
        imgs.append(k[::-1, ::-1])
    if kh == kw and kh > 1:
        imgs += [k.T, k[::-1, ::-1].T, np.rot90(k), np.rot90(k, 3)]
    if not imgs:
        return False
    return all(not np.array_equal(k, im) for im in imgs)
