"""O(n^2) evaluation of the documented line-of-sight model (DESIGN.md Appendix A).

Written from the model: for every target cell the set of *active nearer* cells is computed directly from the
event-angle definitions, each blocker's gradient is interpolated linearly corner -> centre -> corner at the
target's bearing, and the cell is visible iff the maximum does not exceed its own gradient.  No event list,
no sort, no tree: shares no code with xrspatial.viewshed.

`reference` is the pure-Python statement; `reference_fast` is the same arithmetic compiled with Numba (our
code, not theirs) for large grids; c05 cross-checks the two on small cases.
"""
import math
from math import atan, fabs, sqrt
from math import pi as PI

import numba as nb
import numpy as np


def calc_angle(ex, ey, vx, vy):
    if vx == ex and vy > ey:
        return PI / 2
    if vx == ex and vy < ey:
        return PI * 3.0 / 2.0
    if ex == vx and ey == vy:
        return 0.0
    if vy == ey and ex > vx:
        return 0.0
    if vx > ex and vy == ey:
        return PI
    ang = atan(fabs(ey - vy) / fabs(ex - vx))
    if ex > vx and ey < vy:
        return ang
    if vx > ex and vy > ey:
        return PI - ang
    if vx > ex and vy < ey:
        return PI + ang
    if vx < ex and vy < ey:
        return PI * 2.0 - ang
    return 0.0


def corner_offsets(r, c, vr, vc):
    """(enter (dy,dx), exit (dy,dx)) as signs; corner position = (r+0.5dy, c+0.5dx)."""
    if r < vr and c < vc:
        return (-1, +1), (+1, -1)
    if r < vr and c == vc:
        return (+1, +1), (+1, -1)
    if r < vr and c > vc:
        return (+1, +1), (-1, -1)
    if r == vr and c > vc:
        return (+1, -1), (-1, -1)
    if r > vr and c > vc:
        return (+1, -1), (-1, +1)
    if r > vr and c == vc:
        return (-1, -1), (-1, +1)
    if r > vr and c < vc:
        return (-1, -1), (+1, +1)
    if r == vr and c < vc:
        return (-1, +1), (+1, +1)
    raise AssertionError


def corner_elev(el, r, c, dy, dx):
    H, W = el.shape
    r1, c1 = r + dy, c + dx
    if 0 <= r1 < H and 0 <= c1 < W:
        return (el[r1, c1] + el[r1, c] + el[r, c1] + el[r, c]) / 4.0
    return el[r, c]


def grad(row, col, elev, vr, vc, vp_elev, ew, ns):
    diff = elev - vp_elev
    dx = (col - vc) * ew
    dy = (row - vr) * ns
    d2 = dx * dx + dy * dy
    if d2 == 0:
        return PI / 2 if diff > 0 else (-PI / 2 if diff < 0 else 0.0)
    return atan(diff / sqrt(d2))


def vertical_angle(vp_elev, d2, elev):
    diff = vp_elev - elev
    if diff == 0.0:
        return 90.0
    if diff > 0:
        return atan(sqrt(d2) / diff) * 180 / PI
    return atan(abs(diff) / sqrt(d2)) * 180 / PI + 90


def cell_table(el, vr, vc, obs, ew, ns):
    el = np.asarray(el, dtype=np.float64)
    H, W = el.shape
    vp_elev = el[vr, vc] + obs
    n = H * W - 1
    T = np.zeros((n, 11))
    k = 0
    for r in range(H):
        for c in range(W):
            if (r, c) == (vr, vc):
                continue
            (edy, edx), (xdy, xdx) = corner_offsets(r, c, vr, vc)
            a0 = calc_angle(c + 0.5 * edx, r + 0.5 * edy, vc, vr)
            a1 = calc_angle(c, r, vc, vr)
            a2 = calc_angle(c + 0.5 * xdx, r + 0.5 * xdy, vc, vr)
            e0 = corner_elev(el, r, c, edy, edx)
            e1 = el[r, c]
            e2 = corner_elev(el, r, c, xdy, xdx)
            g0 = grad(r + 0.5 * edy, c + 0.5 * edx, e0, vr, vc, vp_elev, ew, ns)
            g1 = grad(r, c, e1, vr, vc, vp_elev, ew, ns)
            g2 = grad(r + 0.5 * xdy, c + 0.5 * xdx, e2, vr, vc, vp_elev, ew, ns)
            dx = (c - vc) * ew
            dy = (r - vr) * ns
            T[k] = (r, c, a0, a1, a2, g0, g1, g2, dx * dx + dy * dy, 1.0 if (r == vr and c > vc) else 0.0, e1)
            k += 1
    return T, vp_elev


def reference(el, vr, vc, obs, target, ew, ns):
    """-> (expected output raster, |max blocking gradient - own gradient| per cell)"""
    el = np.asarray(el, dtype=np.float64)
    H, W = el.shape
    T, vp_elev = cell_table(el, vr, vc, obs, ew, ns)
    tgt = target if target > 0 else 0.0
    out = np.full((H, W), -1.0)
    out[vr, vc] = 180
    margin = np.full((H, W), np.inf)
    for row in T:
        r, c, a0, a1, a2, g0, g1, g2, key, east, e1 = row
        r = int(r)
        c = int(c)
        ang = a1
        gT = grad(r, c, e1 + tgt, vr, vc, vp_elev, ew, ns)
        mx = -1e300
        for row2 in T:
            r2, c2, b0, b1, b2, h0, h1, h2, key2, east2, _ = row2
            if (int(r2), int(c2)) == (r, c) or not (key2 < key):
                continue
            if not east2:
                if not (b0 < ang < b2):
                    continue
                A0, A1, A2 = b0, b1, b2
            else:
                if ang < b2:
                    A0, A1, A2 = b0 - 2 * PI, 0.0, b2
                elif ang > b0:
                    A0, A1, A2 = b0, 2 * PI, b2 + 2 * PI
                else:
                    continue
            if ang < A1:
                g = h1 + (h0 - h1) * (A1 - ang) / (A1 - A0)
            elif ang > A1:
                g = h1 + (h2 - h1) * (ang - A1) / (A2 - A1)
            else:
                g = h1
            if g > mx:
                mx = g
        margin[r, c] = abs(mx - gT)
        if mx <= gT:
            out[r, c] = vertical_angle(vp_elev, key, e1 + tgt)
    return out, margin


@nb.njit(cache=False)
def _sweepless(T, vp_elev, tgt, vr, vc, ew, ns, H, W):
    out = np.full((H, W), -1.0)
    out[vr, vc] = 180.0
    margin = np.full((H, W), np.inf)
    n = T.shape[0]
    TWO_PI = 2 * math.pi
    for i in range(n):
        r = int(T[i, 0])
        c = int(T[i, 1])
        ang = T[i, 3]
        key = T[i, 8]
        e1 = T[i, 10]
        diff = (e1 + tgt) - vp_elev
        gT = math.atan(diff / math.sqrt(key))
        mx = -1e300
        for j in range(n):
            if j == i or not (T[j, 8] < key):
                continue
            b0 = T[j, 2]
            b1 = T[j, 3]
            b2 = T[j, 4]
            if T[j, 9] == 0.0:
                if not (b0 < ang and ang < b2):
                    continue
                A0 = b0
                A1 = b1
                A2 = b2
            else:
                if ang < b2:
                    A0 = b0 - TWO_PI
                    A1 = 0.0
                    A2 = b2
                elif ang > b0:
                    A0 = b0
                    A1 = TWO_PI
                    A2 = b2 + TWO_PI
                else:
                    continue
            h0 = T[j, 5]
            h1 = T[j, 6]
            h2 = T[j, 7]
            if ang < A1:
                g = h1 + (h0 - h1) * (A1 - ang) / (A1 - A0)
            elif ang > A1:
                g = h1 + (h2 - h1) * (ang - A1) / (A2 - A1)
            else:
                g = h1
            if g > mx:
                mx = g
        margin[r, c] = abs(mx - gT)
        if mx <= gT:
            d = vp_elev - (e1 + tgt)
            if d == 0.0:
                out[r, c] = 90.0
            elif d > 0:
                out[r, c] = math.atan(math.sqrt(key) / d) * 180 / math.pi
            else:
                out[r, c] = math.atan(abs(d) / math.sqrt(key)) * 180 / math.pi + 90
    return out, margin


def reference_fast(el, vr, vc, obs, target, ew, ns):
    el = np.asarray(el, dtype=np.float64)
    H, W = el.shape
    T, vp_elev = cell_table(el, vr, vc, obs, ew, ns)
    tgt = target if target > 0 else 0.0
    return _sweepless(T, vp_elev, tgt, vr, vc, float(ew), float(ns), H, W)
