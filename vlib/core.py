"""Core of the checking framework: case encoding, accounting context,
Hypothesis / enumeration drivers.  Used inside worker processes.

A *case* is a plain JSON-able dict (arrays as nested lists + dtype, specials
as strings) with a mandatory key ``sub`` naming the sub-property body that
decides it.  A *body* is ``f(case, ctx) -> R``; it calls the code under test
and the oracle and returns the failures it saw, whether the case was
non-trivial by the property's stated rule, and class labels.
"""
import hashlib
import json
import math
import os
import time
import traceback
from collections import Counter

import numpy as np

# --------------------------------------------------------------------------
# encoding


def enc_scalar(v):
    if isinstance(v, (np.generic,)):
        v = v.item()
    if isinstance(v, float):
        if math.isnan(v):
            return "nan"
        if math.isinf(v):
            return "inf" if v > 0 else "-inf"
    return v


def dec_scalar(v):
    if isinstance(v, str):
        if v == "nan":
            return float("nan")
        if v == "inf":
            return float("inf")
        if v == "-inf":
            return float("-inf")
    return v


def enc_list(x):
    if isinstance(x, (list, tuple)):
        return [enc_list(e) for e in x]
    return enc_scalar(x)


def dec_list(x):
    if isinstance(x, list):
        return [dec_list(e) for e in x]
    return dec_scalar(x)


def enc_arr(a):
    a = np.asarray(a)
    return {"dtype": str(a.dtype), "data": enc_list(a.tolist())}


def dec_arr(d):
    """JSON array spec -> fresh C-contiguous ndarray."""
    dt = np.dtype(d["dtype"])
    data = dec_list(d["data"])
    if dt.kind in "iu":
        return np.array(data, dtype=dt)
    return np.array(data, dtype="float64").astype(dt)


def digest(case):
    return hashlib.sha1(json.dumps(case, sort_keys=True, default=str).encode()).hexdigest()[:20]


def derive_seed(seed, *parts):
    h = hashlib.sha1((":".join([str(seed)] + [str(p) for p in parts])).encode()).hexdigest()
    return int(h[:8], 16)


# --------------------------------------------------------------------------
# results


class R:
    """Outcome of running one case."""
    __slots__ = ("fails", "nt", "cls", "amb", "excl", "repro", "weight")

    def __init__(self, nt=False, cls=(), amb=0, excl=0):
        self.fails = []
        self.nt = nt
        self.cls = list(cls)
        self.amb = amb
        self.excl = excl
        self.weight = 1     # number of elementary cases decided by this body call (batched enumerations)
        self.repro = None   # optional minimal replayable case (bodies that run batches of inputs)

    def fail(self, bucket, msg):
        self.fails.append((bucket, str(msg)[:1500]))
        return self

    def label(self, *names):
        self.cls.extend(names)


class Violation(Exception):
    def __init__(self, bucket, msg):
        super().__init__("%s: %s" % (bucket, msg))
        self.bucket = bucket
        self.msg = msg


def _raised_by_harness(e):
    """True when every traceback frame below the last vlib frame is free of the packages through which library code can run."""
    tb = traceback.extract_tb(e.__traceback__)
    names = [fr.filename.replace("\\", "/") for fr in tb]
    last = max([i for i, fn in enumerate(names) if "/vlib/" in fn] or [-1])
    return not any(("/%s/" % pkg) in fn for fn in names[last + 1:] for pkg in ("xrspatial", "dask", "numba", "xarray", "pandas", "distributed"))


def exc_bucket(e, prefix="exception"):
    """Bucket an unexpected exception by (type, innermost xrspatial frame)."""
    tb = traceback.extract_tb(e.__traceback__)
    where = "?"
    for fr in tb:
        fn = fr.filename.replace("\\", "/")
        if "/xrspatial/" in fn and "/tests/" not in fn:
            where = "%s:%s" % (fn.split("/xrspatial/")[-1], fr.name)
    return "%s.%s@%s" % (prefix, type(e).__name__, where)


class Ctx:
    def __init__(self, prop, tier, seed, shard, known=None, budget_s=None):
        self.prop = prop
        self.tier = tier
        self.seed = seed
        self.shard = shard
        self.known = known or {}          # bucket -> entry (open findings only)
        self.t0 = time.time()
        self.budget_s = budget_s
        self.evaluations = 0
        self.nt_digests = set()
        self.nt_enum = 0                  # distinct non-trivial counted by enumeration index
        self.classes = Counter()
        self.samples = []
        self._sample_cls = set()
        self.ambiguous = 0
        self.excluded_known = 0
        self.violations = []              # [{bucket,msg,case}]
        self.known_seen = {}              # bucket -> example msg
        self.budget_exhausted = False
        self.exhaustive = []              # [{space, size, complete}]
        self.notes = []

    # ---- time
    def expired(self):
        if self.budget_s is not None and time.time() - self.t0 > self.budget_s:
            self.budget_exhausted = True
            return True
        return False

    # ---- accounting
    def account(self, case, r, enum=False):
        self.evaluations += r.weight
        for c in r.cls:
            self.classes[c] += 1
        self.ambiguous += r.amb
        self.excluded_known += r.excl
        if r.nt:
            self.classes["nontrivial"] += 1
            if enum:
                self.nt_enum += r.weight
            else:
                self.nt_digests.add(digest(case))
        # samples: non-trivial cases only; first two, plus the first of each new class, at most 6
        if r.nt and len(self.samples) < 6:
            newcls = [c for c in r.cls if c not in self._sample_cls]
            if len(self.samples) < 2 or newcls:
                s = json.dumps(case, default=str)
                if len(s) < 3000:
                    self._sample_cls.update(r.cls)
                    self.samples.append(case)

    def triage(self, case, r):
        """Split failures into known findings (recorded) and unlisted (returned)."""
        unlisted = []
        for bucket, msg in r.fails:
            if bucket in self.known:
                self.known_seen.setdefault(bucket, msg)
            else:
                unlisted.append((bucket, msg))
        return unlisted

    def to_json(self):
        return {
            "shard": self.shard,
            "evaluations": self.evaluations,
            "nt_digests": sorted(self.nt_digests),
            "nt_enum": self.nt_enum,
            "classes": dict(self.classes),
            "samples": self.samples,
            "ambiguous": self.ambiguous,
            "excluded_known": self.excluded_known,
            "violations": self.violations,
            "known_seen": self.known_seen,
            "budget_exhausted": self.budget_exhausted,
            "exhaustive": self.exhaustive,
            "notes": self.notes,
            "wall_s": round(time.time() - self.t0, 2),
        }


# --------------------------------------------------------------------------
# drivers


def run_body(body, case, ctx):
    """Run a body, turning unexpected exceptions into bucketed failures."""
    try:
        r = body(case, ctx)
    except Violation as v:
        r = R().fail(v.bucket, v.msg)
    except (KeyboardInterrupt, SystemExit, MemoryError, HarnessError):
        raise
    except Exception as e:  # noqa: an exception inside the domain is a failure of the property
        b = exc_bucket(e)
        if b.endswith("@?") and _raised_by_harness(e):
            # no frame of the library under test (nor of dask / numba / xarray evaluating its lazy result) below the harness frames:
            # the harness itself (generator, decoder, oracle) failed, not the property
            raise HarnessError("harness exception outside xrspatial: %s: %s\n%s" % (type(e).__name__, e, traceback.format_exc()[-1200:]))
        r = R().fail(b, "%s: %s\n%s" % (type(e).__name__, e, traceback.format_exc()[-1200:]))
    return r


def drive_hypothesis(ctx, body, strategy, max_examples, shrink=True, name=None):
    """Run `body` over cases drawn from `strategy`.  First unlisted failure is
    shrunk by Hypothesis and recorded in ctx.violations (search then stops for
    this driver call)."""
    import hypothesis
    from hypothesis import HealthCheck, Phase, given, settings

    state = {"last_fail": None}
    phases = [Phase.explicit, Phase.generate, Phase.target]
    if shrink:
        phases.append(Phase.shrink)

    @hypothesis.seed(derive_seed(ctx.seed, ctx.prop, ctx.shard, name or getattr(body, "__name__", "")))
    @settings(max_examples=max_examples, database=None, deadline=None, derandomize=False,
              report_multiple_bugs=False, phases=phases, print_blob=False,
              suppress_health_check=[HealthCheck.too_slow, HealthCheck.data_too_large,
                                     HealthCheck.large_base_example])
    @given(strategy)
    def test(case):
        # the soft budget only stops the *search*; once a failure has been seen the shrink/replay runs must stay deterministic
        if state["last_fail"] is None and ctx.expired():
            return
        r = run_body(body, case, ctx)
        ctx.account(case, r)
        unlisted = ctx.triage(case, r)
        if unlisted:
            state["last_fail"] = (case, unlisted[0])
            state["repro"] = r.repro
            raise Violation(*unlisted[0])

    try:
        test()
    except Violation:
        case, (bucket, msg) = state["last_fail"]
        ctx.violations.append({"bucket": bucket, "msg": msg, "case": state.get("repro") or case})
    except hypothesis.errors.FailedHealthCheck as e:
        # generator bug, never a verdict
        raise HarnessError("health check failed in %s/%s: %s" % (ctx.prop, ctx.shard, e))
    except hypothesis.errors.Flaky as e:
        if state["last_fail"]:
            case, (bucket, msg) = state["last_fail"]
            ctx.violations.append({"bucket": "flaky." + bucket, "msg": msg + "\n(flaky: %s)" % e, "case": case})
        else:
            raise HarnessError("flaky without failure: %s" % e)


def drive_enum(ctx, body, cases, space=None, size=None, stop_on_first=True):
    """Run `body` over an explicit iterable of cases (exhaustive enumerations).
    Non-trivial cases are counted by enumeration index (distinct by construction)."""
    n = 0
    complete = True
    for case in cases:
        if ctx.expired():
            complete = False
            break
        r = run_body(body, case, ctx)
        ctx.account(case, r, enum=True)
        n += 1
        unlisted = ctx.triage(case, r)
        if unlisted:
            bucket, msg = unlisted[0]
            if not any(v["bucket"] == bucket for v in ctx.violations):
                ctx.violations.append({"bucket": bucket, "msg": msg, "case": r.repro or case})
            if stop_on_first:
                complete = False
                break
    if space:
        ctx.exhaustive.append({"space": space, "size": n if size is None else size,
                               "enumerated": n, "complete": complete})
    return n


class HarnessError(Exception):
    pass
