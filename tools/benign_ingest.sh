#!/bin/bash
# tools/benign_ingest.sh <worktree> <dir-name> <PROP> [check args]: save a false-alarm probe's uncommitted changes as benign/<name>/{patch.diff,notes.md},
# remove the worktree, apply the patch to a scratch worktree and run the check against it (expected: exit 0).
set -u
WT=$1; NAME=$2; PROP=$3; shift 3
mkdir -p /verif/benign/$NAME
git -C $WT diff -- xrspatial > /verif/benign/$NAME/patch.diff
cp $WT/benign_notes.md /verif/benign/$NAME/notes.md 2>/dev/null
cp $WT/demo_holds.py /verif/benign/$NAME/demo_holds.py 2>/dev/null
git -C /repo worktree remove --force $WT
S=/dev/shm/bw_$NAME
git -C /repo worktree remove --force $S 2>/dev/null
git -C /repo worktree add -q $S HEAD || exit 2
git -C $S apply /verif/benign/$NAME/patch.diff || { echo "PATCH-DOES-NOT-APPLY $NAME"; git -C /repo worktree remove --force $S; exit 2; }
cd /verif
OUT=$(VERIF_REPO=$S ./check $PROP --tier quick --no-evidence "$@" 2>&1); RC=$?
echo "$OUT" | grep -E "^VIOLATION|bucket=|^C[0-9]+ tier|HARNESS" | head -12
echo "BENIGN $NAME prop=$PROP check_exit=$RC (expected 0)"
git -C /repo worktree remove --force $S
