#!/bin/bash
# tools/seeded_ingest.sh <worktree> <seed-dir-name> <PROP> [check args]: save a sub-agent's uncommitted change as seeded/<name>/{patch.diff,demo.py},
# remove the worktree, then run tools/seeded_run.sh.
set -u
WT=$1; NAME=$2; PROP=$3; shift 3
mkdir -p /verif/seeded/$NAME
git -C $WT diff -- xrspatial > /verif/seeded/$NAME/patch.diff
cp $WT/demo.py /verif/seeded/$NAME/demo.py
git -C /repo worktree remove --force $WT
/verif/tools/seeded_run.sh $NAME $PROP "$@"
