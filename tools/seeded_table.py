"""Regenerate the seeded-changes table of DESIGN.md section 12.3 from seeded/*/meta.json."""
import glob, json, os, re
HERE = os.path.dirname(os.path.dirname(os.path.abspath(__file__)))
rows = ["| seeded change | breaks | what it needs to manifest | caught by |", "|---|---|---|---|"]
for d in sorted(glob.glob(os.path.join(HERE, "seeded", "*"))):
    m = json.load(open(os.path.join(d, "meta.json")))
    rows.append("| `seeded/%s` (%s) | %s | %s | %s |" % (os.path.basename(d), m["property"], m["breaks"], m["needs"], m["caught_by"]))
table = "\n".join(rows)
p = os.path.join(HERE, "DESIGN.md")
s = open(p).read()
if "SEEDED_TABLE" in s:
    s = s.replace("SEEDED_TABLE", "<!-- seeded-table-begin -->\n" + table + "\n<!-- seeded-table-end -->")
else:
    s = re.sub(r"<!-- seeded-table-begin -->.*?<!-- seeded-table-end -->", lambda _: "<!-- seeded-table-begin -->\n" + table + "\n<!-- seeded-table-end -->", s, flags=re.S)
open(p, "w").write(s)
print(len(rows) - 2, "rows")
