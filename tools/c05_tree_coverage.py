"""Generator audit for C05 (not a check): replay C05's own random cases with NUMBA_DISABLE_JIT=1 under `coverage`, restricted to
xrspatial/viewshed.py, and report which lines of the hand-written tree routines the generated terrains reach.
Usage: NUMBA_DISABLE_JIT=1 /venv/bin/python tools/c05_tree_coverage.py [n_cases] [max_side]"""
import ast, os, sys, warnings
os.environ["NUMBA_DISABLE_JIT"] = "1"
sys.path.insert(0, os.environ.get("VERIF_REPO", "/repo"))
sys.path.insert(0, os.path.dirname(os.path.dirname(os.path.abspath(__file__))))
warnings.filterwarnings("ignore")
import coverage
n = int(sys.argv[1]) if len(sys.argv) > 1 else 150
side = int(sys.argv[2]) if len(sys.argv) > 2 else 10
cov = coverage.Coverage(include=["*/xrspatial/viewshed.py"], branch=True)
cov.start()
import hypothesis
from hypothesis import given, settings, HealthCheck
from vlib.props import c05
from vlib.core import Ctx
import contextlib, io
ctx = Ctx("C05", "quick", 1, "audit")
@hypothesis.seed(12345)
@settings(max_examples=n, database=None, deadline=None, suppress_health_check=list(HealthCheck))
@given(c05.vs_cases(side, big=True))
def run(case):
    with contextlib.redirect_stdout(io.StringIO()):
        r = c05.body_vs(case, ctx)
    assert not r.fails, r.fails
run()
cov.stop()
import importlib; V = importlib.import_module("xrspatial.viewshed")
src = open(V.__file__).read()
tree = ast.parse(src)
data = cov.get_data()
executed = set(data.lines(V.__file__) or [])
analysis = cov.analysis2(V.__file__)
missing = set(analysis[3])
print("cases:", n, "max side:", side)
for node in tree.body:
    if isinstance(node, ast.FunctionDef) and node.name in ("_left_rotate", "_right_rotate", "_rb_insert_fixup", "_rb_delete_fixup", "_delete_from_tree",
                                                             "_insert_into_tree", "_find_max_value_within_key", "_tree_successor", "_tree_minimum"):
        lines = set(range(node.lineno, node.end_lineno + 1))
        stm = lines & set(analysis[1])
        miss = sorted(lines & missing)
        print("%-28s statements %3d  missed %3d  (%.0f%% reached)  missed lines: %s" % (node.name, len(stm), len(miss), 100.0 * (len(stm) - len(miss)) / max(1, len(stm)), miss[:25]))
