"""Regenerate MANIFEST.json from the property modules that exist (python tools/gen_manifest.py)."""
import importlib
import json
import os
import sys

HERE = os.path.dirname(os.path.dirname(os.path.abspath(__file__)))
sys.path.insert(0, "/repo")
sys.path.insert(0, HERE)

props = [json.loads(l) for l in open(os.path.join(HERE, "properties.jsonl"))]
checks, na = [], []
for p in props:
    pid = p["id"]
    path = os.path.join(HERE, "vlib", "props", pid.lower() + ".py")
    claimed = set(open(os.path.join(HERE, "tools", "claimed.txt")).read().split())
    if not os.path.exists(path) or pid not in claimed:
        na.append({"property_id": pid, "reason": "check not built yet (design in DESIGN.md section 5); will be claimed when its module exists"})
        continue
    m = importlib.import_module("vlib.props." + pid.lower())
    if getattr(m, "NOT_CLAIMED", None):
        na.append({"property_id": pid, "reason": m.NOT_CLAIMED})
        continue
    checks.append({
        "property_id": pid,
        "quick_cmd": "./check %s --tier quick" % pid,
        "thorough_cmd": "./check %s --tier thorough" % pid,
        "evidence_file": "/verif/evidence/%s.json" % pid,
        "replay_cmd_template": "./check %s --replay {path}" % pid,
        "engine": "vlib",
        "level_claimed": {"category": "exploration", "text": m.LEVEL_TEXT, "design_ref": "DESIGN.md section 5, %s" % pid},
        "level_note": m.LEVEL_NOTE,
        "technique": m.TECHNIQUE,
    })
man = {
    "version": 1,
    "setup_cmd": "/venv/bin/pip install -q --no-index --find-links /opt/veriftools/wheels hypothesis && /venv/bin/python tools/selftest.py",
    "hooks": {
        "guard": "XRSPATIAL_VERIF",
        "enable": "no hooks are needed: every property is observable through the public API; xrspatial is an editable install JIT-compiled at import, so each check process rebuilds from /repo's working tree (PYTHONPATH=$VERIF_REPO, default /repo)",
        "baseline_off_cmd": "cd /repo && /venv/bin/python -m pytest -ra -q -p no:cacheprovider --timeout=900 --continue-on-collection-errors",
        "source_commits": [],
        "add_only": True,
    },
    "engines": [{"name": "vlib", "path": "/verif/vlib", "serves_properties": [c["property_id"] for c in checks],
                 "kind_free_text": "Hypothesis property-based testing (seeded, database=None) + bounded-exhaustive enumeration against independent reference oracles; 16 sharded worker processes; shrunk failures become JSON replay files"}],
    "checks": checks,
    "not_applicable": na,
    "notes": "All checks: exit 0 held / exit 1 with VIOLATION line / exit 2 harness error. VERIF_SEED honoured. Known findings in /verif/known_findings.json. See DESIGN.md.",
}
json.dump(man, open(os.path.join(HERE, "MANIFEST.json"), "w"), indent=1)
print("claimed:", [c["property_id"] for c in checks])
print("not_applicable:", [n["property_id"] for n in na])
