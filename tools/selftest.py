"""setup self-test: the tools the checks need import, offline."""
import os, sys
sys.path.insert(0, "/repo")
import numpy, numba, dask, xarray, pandas, hypothesis
import xrspatial
print("numpy", numpy.__version__, "numba", numba.__version__, "dask", dask.__version__, "xarray", xarray.__version__,
      "pandas", pandas.__version__, "hypothesis", hypothesis.__version__)
print("xrspatial from", os.path.dirname(xrspatial.__file__))
