#!/bin/bash
# tools/mut.sh <file-relative-to-xrspatial> <python-regex-old> <new> <PROP> [shards]
# apply one textual mutation to the scratch copy /dev/shm/xrs_m, run the check against it, restore.
set -u
M=${MUT_DIR:-/dev/shm/xrs_m}
[ -d $M/xrspatial ] || { mkdir -p $M; cp -r /repo/xrspatial $M/; }
F=$M/xrspatial/$1
cp /repo/xrspatial/$1 $F
/venv/bin/python - "$F" "$2" "$3" <<'PY'
import sys
p,old,new=sys.argv[1:4]
s=open(p).read()
n=s.count(old)
if n<1: print("MUTATION-NOT-APPLIED: pattern not found"); sys.exit(9)
s=s.replace(old,new,1)
open(p,'w').write(s)
print("mutated",p,"(%d occurrences, first replaced)"%n)
PY
[ $? -eq 9 ] && exit 9
cd /verif
if [ -n "${5:-}" ]; then SH="--shards $5"; else SH="--no-evidence"; fi
VERIF_REPO=$M ./check $4 --tier ${TIER:-quick} $SH 2>&1 | grep -E "^VIOLATION|bucket=|^C[0-9]+ tier|HARNESS" | head -8
cp /repo/xrspatial/$1 $F
