"""python3-vt tools/validate.py : validate MANIFEST.json and every evidence file against the schemas."""
import glob, json, sys
import jsonschema
ok = True
man = json.load(open("/verif/MANIFEST.json"))
jsonschema.validate(man, json.load(open("/root/.vp/MANIFEST.schema.json")))
es = json.load(open("/root/.vp/EVIDENCE.schema.json"))
for c in man["checks"]:
    try:
        ev = json.load(open(c["evidence_file"]), parse_constant=lambda x: (_ for _ in ()).throw(ValueError("non-JSON constant " + x)))
        jsonschema.validate(ev, es)
        print("ok", c["property_id"], ev["tier"], ev["coverage"]["evaluations"], ev["coverage"]["distinct_nontrivial"], ev.get("violations"))
    except Exception as e:
        ok = False
        print("BAD", c["property_id"], str(e)[:300])
sys.exit(0 if ok else 1)
