#!/bin/bash
# tools/seeded_run.sh <seed-dir-name> <PROP> [extra check args]
# Applies seeded/<name>/patch.diff to a scratch worktree of /repo HEAD, runs the demonstration with and without the change,
# runs ./check <PROP> against the changed tree (VERIF_REPO), removes the worktree.  Prints a summary line.
set -u
NAME=$1; PROP=$2; shift 2
WT=/dev/shm/sw_$NAME
git -C /repo worktree remove --force $WT 2>/dev/null
git -C /repo worktree add -q $WT HEAD || exit 2
git -C $WT apply /verif/seeded/$NAME/patch.diff || { echo "PATCH-DOES-NOT-APPLY $NAME"; git -C /repo worktree remove --force $WT; exit 2; }
cd /tmp
PYTHONPATH=$WT /venv/bin/python /verif/seeded/$NAME/demo.py >/dev/null 2>&1; A=$?
PYTHONPATH=/repo /venv/bin/python /verif/seeded/$NAME/demo.py >/dev/null 2>&1; B=$?
cd /verif
OUT=$(VERIF_REPO=$WT ./check $PROP --tier quick --no-evidence "$@" 2>&1); RC=$?
echo "$OUT" | grep -E "^VIOLATION|bucket=|^C[0-9]+ tier|HARNESS" | head -6
echo "SEEDED $NAME prop=$PROP demo_with_change=$A demo_on_repo=$B check_exit=$RC"
git -C /repo worktree remove --force $WT
